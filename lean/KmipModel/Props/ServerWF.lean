/-
END TO END: the composed byte-level server (`Props/ServerBytes.lean`: framing / session M7 x request decoder M14 x
engine M5 x response encoder M15) answers EVERY byte string with well-formed TTLV that follows the response
envelope - in every engine state reachable from the empty store by serving frames (and restarts).

No hypothesis on the bytes a client sends, none on the store: the range of the stored values is an invariant
(`Lemmas/RangeInv.lean`: `processRequest_store_in_range`, `run_vals`), every request decoded from bytes is in range
(`Lemmas/DecodeRange.lean`: `decode_in_range`), every result and every error reason the engine model answers is in
range (`Lemmas/RangeResults.lean`, `Lemmas/RangeReasons.lean`, `Lemmas/RangeResponse.lean`).

What remains (`WorldOk`, about the PARAMETERS of the composed model, and the size of the message):
  * the clock fits a Date-Time (64 bits signed);
  * the server's list of protocol versions is small (the real list is: `Gen.supportedVersions`);
  * the cryptography backend's answers carry key format types and error reasons that fit an Enumeration;
  * the oracle subtrees (Key Wrapping Data, split-key fields, IV / tag) are valid TTLV;
  * the message is shorter than 2^32 bytes (the Length field of TTLV is 32 bits wide).
-/
import KmipModel.Props.ServerBytes
import KmipModel.Lemmas.RangeResponse
import KmipModel.Lemmas.DecodeRange
namespace Kmip.ServerWF
open Kmip Kmip.Session Kmip.Server Kmip.Encode Kmip.TTLV Kmip.ServerBytes
open Kmip.EngineResponse (bytesOf verPair)

/-! ### the exported invariants -/

/-- **`processRequest_store_in_range`**: serving a request in range keeps the values of the store in range -/
theorem processRequest_store_in_range (c : Ctx) (hn : i64 (Int.ofNat c.now) = true) (e : Engine) (id : Identity)
    (r : Request) (hr : RequestInRange r) (hi : e.store.Inv) (hs : StoreVals e.store) :
    StoreVals (processRequest c e id r).1.store :=
  Encode.processRequest_store_in_range c hn e id r hr hi hs

/-- **the values of the store are in range after every history of in-range requests and restarts** -/
theorem run_store_in_range (e : Engine) (steps : List Step) (hok : StepsInRange steps) (hi : e.store.Inv)
    (hs : StoreVals e.store) : StoreVals (run e steps).store :=
  run_vals e steps hok hi hs

/-- **`decode_in_range`**: every request decoded from bytes - ANY bytes - is in range -/
theorem decode_in_range (dv : Nat) (bs : TTLV.Bytes) (r : Request) (h : Decode.decodeFrame dv bs = .ok r) :
    RequestInRange r :=
  Decode.decode_in_range dv bs r h

/-- the decoded request is non-vacuous: there are frames the decoder accepts (C13Decode) and the predicate is not
trivially true -/
example : ¬ RequestInRange ⟨12, none, none, none, none,
    [⟨.setAttribute none ⟨"Cryptographic Length", none, .int 4294967296⟩, none, .internal⟩]⟩ := by decide

/-- **the answer to a request in range is in range** (the hypothesis of `C02Encode.server_response_wellformed`) -/
theorem request_response_in_range (c : Ctx) (e : Engine) (id : Identity) (r : Request)
    (extras : List (List TTLV.Item)) (i : TTLV.Item)
    (hs : StoreVals e.store) (hi : e.store.Inv) (hr : RequestInRange r)
    (hv : ∀ v ∈ c.supportedVersions, v < 21474836480) (hn : i64 (Int.ofNat c.now) = true)
    (hx : extras.all (fun xs => xs.all Item.validB) = true)
    (hitem : responseItem r.version c.now extras (processRequest c e id r).2 = some i)
    (hlen : (encode i).length < 4294967296) :
    responseInRange r.version c.now extras (processRequest c e id r).2 = true :=
  Encode.request_response_in_range c e id r extras i hs hi hr hv hn hx hitem hlen

/-! ### the parameters of the byte-level world -/

structure WorldOk (b : ByteWorld) : Prop where
  clock : ∀ e, i64 (Int.ofNat (b.ctxOf e).now) = true
  versions : ∀ e, ∀ v ∈ (b.ctxOf e).supportedVersions, v < 21474836480
  oracle : ∀ req, ∀ cr ∈ b.oracle req, cryptoReq cr = true
  extras : ∀ rs, (b.extrasOf rs).all (fun xs => xs.all Item.validB) = true

theorem withOracle_in_range (orc : Oracle) (req : Request) (hr : RequestInRange req)
    (ho : ∀ cr ∈ orc req, cryptoReq cr = true) : RequestInRange (withOracle orc req) := by
  simp only [RequestInRange, requestInRange, Bool.and_eq_true, decide_eq_true_eq, List.all_eq_true] at hr ⊢
  refine ⟨hr.1, ?_⟩
  intro x hx
  simp only [withOracle, fillCrypto, List.mem_map] at hx
  obtain ⟨p, hp, rfl⟩ := hx
  have hz := List.of_mem_zip hp
  have h1 := hr.2 p.1 hz.1
  simp only [itemReq, Bool.and_eq_true] at h1 ⊢
  refine ⟨h1.1, ?_⟩
  rcases List.mem_append.1 hz.2 with h2 | h2
  · exact ho _ h2
  · rw [List.eq_of_mem_replicate h2]; rfl

/-! ### engine states the server can be in -/

/-- reachable from the empty store by serving frames (any bytes, any peer) and restarting -/
inductive Reachable (b : ByteWorld) (cfg : SessionCfg) : Engine → Prop
  | init : Reachable b cfg Engine.init
  | frame (e : Engine) (peer : Option Cert) (data : TTLV.Bytes) : Reachable b cfg e →
      Reachable b cfg (handleMessage (serverEnv (world b)) cfg peer e data).2
  | restart (e : Engine) : Reachable b cfg e → Reachable b cfg e.restart

/-- **the store of every reachable state is well formed and its values are in range** -/
theorem reachable_inv (b : ByteWorld) (cfg : SessionCfg) (hw : WorldOk b) (e : Engine) (h : Reachable b cfg e) :
    e.store.Inv ∧ StoreVals e.store := by
  induction h with
  | init => exact ⟨Store.inv_empty, StoreVals.empty⟩
  | restart e _ ih => exact ih
  | frame e peer data _ ih =>
    cases hid : establish cfg.auth peer with
    | error f => rw [(ServerProps.unauthenticated_is_noop (world b) cfg peer e data f hid).2]; exact ih
    | ok id =>
      cases hd : Decode.decodeFrame (world b).defaultVer data with
      | error err => rw [(ServerProps.undecodable_frame_is_noop (world b) cfg peer e data err hd).2]; exact ih
      | ok req =>
        rw [(ServerProps.decoded_frame_runs_engine (world b) cfg peer e data req id hd hid).2]
        have hr := withOracle_in_range b.oracle req (Decode.decode_in_range _ _ _ hd) (hw.oracle req)
        exact ⟨(processRequest_inv _ e id _ ih.1).1,
          Encode.processRequest_store_in_range _ (hw.clock e) e id _ hr ih.1 ih.2⟩

/-! ### what the session can send -/

theorem sizeCheck_sent {Q R σ} (env : Env Q R σ) (m : Mid Q R) (resp r : Response R) (n : Nat)
    (h : (sizeCheck env m resp n).sent = some r) :
    r = resp ∨ ∃ req, m.request = some req ∧ r = .error (env.version req) SRsn.responseTooLarge := by
  unfold sizeCheck at h
  split at h
  · split at h
    · cases h
    · rename_i req hreq
      simp only at h
      split at h
      · cases h
      · simp only [Option.some.injEq] at h; exact Or.inr ⟨req, hreq, h.symm⟩
  · simp only [Option.some.injEq] at h; exact Or.inl h.symm

theorem emit_sent {Q R σ} (env : Env Q R σ) (m : Mid Q R) (r : Response R) (h : (emit env m).sent = some r) :
    r = m.response ∨ ∃ req, m.request = some req ∧
      (r = .error (env.version req) SRsn.responseTooLarge ∨ r = .error (env.version req) SRsn.generalFailure) := by
  unfold emit at h
  split at h
  · rcases sizeCheck_sent env m _ r _ h with h1 | ⟨req, h1, h2⟩
    · exact Or.inl h1
    · exact Or.inr ⟨req, h1, Or.inl h2⟩
  · split at h
    · cases h
    · rename_i req hreq
      simp only at h
      split at h
      · cases h
      · rcases sizeCheck_sent env m _ r _ h with h1 | ⟨req', h1, h2⟩
        · exact Or.inr ⟨req, hreq, Or.inr h1⟩
        · exact Or.inr ⟨req', h1, Or.inl h2⟩

/-- the reasons the session itself puts into an error response -/
def sessionReasons : List Nat :=
  [SRsn.responseTooLarge, SRsn.authenticationNotSuccessful, SRsn.invalidMessage, SRsn.generalFailure]

/-- **what `_handle_message_loop` can send**: the engine's response to the decoded request, or an error response
whose header version is 1.0 or the decoded request's, and whose reason is the session's or the engine's rejection -/
theorem sent_cases {Q R σ} (env : Env Q R σ) (cfg : SessionCfg) (peer : Option Cert) (s : σ) (data : Session.Bytes)
    (resp : Response R) (h : (handleMessage env cfg peer s data).1.sent = some resp) :
    (∃ r req id mx v s', resp = .normal r ∧ env.parse data = some req ∧ establish cfg.auth peer = .ok id ∧
        env.engine s req id = (.ok r mx v, s')) ∨
    (∃ hdr rsn, resp = .error hdr rsn ∧
      (hdr = (1, 0) ∨ ∃ req, env.parse data = some req ∧ hdr = env.version req) ∧
      (rsn ∈ sessionReasons ∨ ∃ req id, env.parse data = some req ∧ establish cfg.auth peer = .ok id ∧
        (env.engine s req id).1 = .kmipError rsn)) := by
  unfold handleMessage at h
  simp only at h
  have key := emit_sent env _ resp h
  unfold evaluate at key
  unfold establish
  cases hc : certStage cfg.auth.tlsClientAuth peer with
  | none =>
    simp only [hc] at key
    rcases key with rfl | ⟨req, hreq, _⟩
    · exact Or.inr ⟨_, _, rfl, Or.inl rfl, Or.inl (by decide)⟩
    · cases hreq
  | some cert =>
    simp only [hc] at key ⊢
    cases hp : env.parse data with
    | none =>
      simp only [hp] at key
      rcases key with rfl | ⟨req, hreq, _⟩
      · exact Or.inr ⟨_, _, rfl, Or.inl rfl, Or.inl (by decide)⟩
      · cases hreq
    | some req =>
      simp only [hp] at key
      cases ha : authenticate cfg.auth cert with
      | none =>
        simp only [ha] at key
        rcases key with rfl | ⟨req', hreq, h2⟩
        · exact Or.inr ⟨_, _, rfl, Or.inr ⟨req, rfl, rfl⟩, Or.inl (by decide)⟩
        · simp only [Option.some.injEq] at hreq; subst hreq
          rcases h2 with rfl | rfl
          · exact Or.inr ⟨_, _, rfl, Or.inr ⟨req, rfl, rfl⟩, Or.inl (by decide)⟩
          · exact Or.inr ⟨_, _, rfl, Or.inr ⟨req, rfl, rfl⟩, Or.inl (by decide)⟩
      | some id =>
        simp only [ha] at key ⊢
        cases he : env.engine s req id with
        | mk out s' =>
          simp only [he] at key
          cases out with
          | ok r mx v =>
            simp only at key
            rcases key with rfl | ⟨req', hreq, h2⟩
            · exact Or.inl ⟨r, req, id, mx, v, s', rfl, rfl, rfl, he⟩
            · simp only [Option.some.injEq] at hreq; subst hreq
              rcases h2 with rfl | rfl
              · exact Or.inr ⟨_, _, rfl, Or.inr ⟨req, rfl, rfl⟩, Or.inl (by decide)⟩
              · exact Or.inr ⟨_, _, rfl, Or.inr ⟨req, rfl, rfl⟩, Or.inl (by decide)⟩
          | kmipError rsn =>
            simp only at key
            rcases key with rfl | ⟨req', hreq, h2⟩
            · exact Or.inr ⟨_, _, rfl, Or.inr ⟨req, rfl, rfl⟩, Or.inr ⟨req, id, rfl, rfl, by rw [he]⟩⟩
            · simp only [Option.some.injEq] at hreq; subst hreq
              rcases h2 with rfl | rfl
              · exact Or.inr ⟨_, _, rfl, Or.inr ⟨req, rfl, rfl⟩, Or.inl (by decide)⟩
              · exact Or.inr ⟨_, _, rfl, Or.inr ⟨req, rfl, rfl⟩, Or.inl (by decide)⟩
          | other =>
            simp only at key
            rcases key with rfl | ⟨req', hreq, h2⟩
            · exact Or.inr ⟨_, _, rfl, Or.inr ⟨req, rfl, rfl⟩, Or.inl (by decide)⟩
            · simp only [Option.some.injEq] at hreq; subst hreq
              rcases h2 with rfl | rfl
              · exact Or.inr ⟨_, _, rfl, Or.inr ⟨req, rfl, rfl⟩, Or.inl (by decide)⟩
              · exact Or.inr ⟨_, _, rfl, Or.inr ⟨req, rfl, rfl⟩, Or.inl (by decide)⟩

/-! ### error responses -/

/-- an error response is valid when its header version and reason fit and its text leaves the message below 2^32 -/
theorem errorItem_valid (hdr : Ver) (now : Int) (rsn : Nat) (text : TTLV.Bytes) (h1 : hdr.1 < 2147483648)
    (h2 : hdr.2 < 2147483648) (hn : i64 now = true) (hr : u32 rsn = true) (ht : text.length < 4294967000) :
    (errorItem hdr now rsn text).Valid := by
  refine valid_of_local _ ?_ ?_
  · unfold errorItem Envelope.buildErrorResponse
    refine local_buildResponse _ _ _ ?_ ?_ hn (by simp) ?_
    · simp only [i32, decide_eq_true_eq]; omega
    · simp only [i32, decide_eq_true_eq]; omega
    · simp only [List.map_cons, List.map_nil, localOkL_cons, localOkL_nil, Bool.and_true]
      exact local_buildItem_failure none none rsn _ rfl hr
  · rw [errorItem_length]
    have hp : padLen text.length < 8 := by unfold padLen; omega
    have h4 : (256 : Nat) ^ 4 = 4294967296 := by decide
    omega

/-! ### the theorem -/

/-- **Every response the composed byte-level server sends is well-formed TTLV without envelope fault.**

For every byte-level world whose parameters are sane (`WorldOk`), every engine state reachable from the empty
store, every peer certificate and EVERY byte string `data` framed as a request - whatever message `resp` the
session decides to send:

  * the engine's response (`.normal rs`): `data` decodes to a request `req`, and the bytes written for it at the
    engine's clock under the request's version - if `write` succeeds at all and they are shorter than 2^32 - are
    well-formed TTLV, the encoding of a valid tree that has no envelope fault and echoes the request's version;
  * an error response (`.error hdr rsn`: undecodable frame, authentication failure, rejected request, response too
    large, response that cannot be written): written at any time that fits a Date-Time with a text shorter than
    2^32 - 296, it is well-formed TTLV, valid, without envelope fault under the header version it carries. -/
theorem served_bytes_wellformed (b : ByteWorld) (cfg : SessionCfg) (hw : WorldOk b) (e : Engine)
    (hre : Reachable b cfg e) (peer : Option Cert) (data : TTLV.Bytes) (resp : Response (List ItemResult))
    (hsent : (handleMessage (serverEnv (world b)) cfg peer e data).1.sent = some resp) :
    (∀ rs, resp = .normal rs → ∃ req, Decode.decodeFrame (world b).defaultVer data = .ok req ∧
      ∀ bs, sentBytes b ((b.ctxOf e).now : Int) (verOf req) (.normal rs) = some bs → bs.length < 4294967296 →
        WF bs ∧ ∃ i, bs = encode i ∧ i.Valid ∧ Envelope.faults (some (verPair req.version)) i = []) ∧
    (∀ hdr rsn, resp = .error hdr rsn → ∀ now : Int, i64 now = true → ∀ text : TTLV.Bytes, text.length < 4294967000 →
      WF (encode (errorItem hdr now rsn text)) ∧ (errorItem hdr now rsn text).Valid ∧
      Envelope.faults (some ((hdr.1 : Int), (hdr.2 : Int))) (errorItem hdr now rsn text) = []) := by
  obtain ⟨hinv, hvals⟩ := reachable_inv b cfg hw e hre
  have hparse : ∀ req, (serverEnv (world b)).parse data = some req →
      Decode.decodeFrame (world b).defaultVer data = .ok req := by
    intro req hp
    have : parse (world b) data = some req := hp
    unfold parse at this
    split at this
    · rename_i r hd; simp only [Option.some.injEq] at this; subst this; exact hd
    · cases this
  rcases sent_cases (serverEnv (world b)) cfg peer e data resp hsent with
    ⟨r, req, id, mx, v, s', rfl, hp, hid, he⟩ | ⟨hdr, rsn, rfl, hhdr, hrsn⟩
  · -- the engine's response
    refine ⟨fun rs hrs => ?_, fun hdr rsn h => (by cases h)⟩
    simp only [Response.normal.injEq] at hrs; subst hrs
    have hd := hparse req hp
    refine ⟨req, hd, fun bs hb hlen => ?_⟩
    -- the engine call
    have heng : (serverEnv (world b)).engine e req id = engineEntry (world b) e req id := rfl
    rw [heng] at he
    unfold engineEntry at he
    have hrr := withOracle_in_range b.oracle req (Decode.decode_in_range _ _ _ hd) (hw.oracle req)
    cases hpr : processRequest ((world b).ctxOf e) e id (withOracle (world b).oracle req) with
    | mk e' res =>
      rw [hpr] at he
      cases res with
      | rejected reason msg => simp only at he; cases he
      | results rs =>
        simp only [Prod.mk.injEq, EngineOut.ok.injEq] at he
        obtain ⟨⟨rfl, _, _⟩, _⟩ := he
        simp only [sentBytes, verNum_verOf] at hb
        have hres : (processRequest (b.ctxOf e) e id (withOracle b.oracle req)).2 = .results rs := by
          have : (processRequest ((world b).ctxOf e) e id (withOracle (world b).oracle req)).2 = .results rs := by
            rw [hpr]
          exact this
        have hb' : responseBytes (withOracle b.oracle req).version ((b.ctxOf e).now : Int) (b.extrasOf rs)
            (processRequest (b.ctxOf e) e id (withOracle b.oracle req)).2 = some bs := by rw [hres]; exact hb
        simp only [responseBytes] at hb
        cases hi : responseItem req.version ((b.ctxOf e).now : Int) (b.extrasOf rs) (.results rs) with
        | none => rw [hi] at hb; cases hb
        | some i =>
          rw [hi] at hb
          simp only [Option.map_some, Option.some.injEq] at hb; subst hb
          have hi' : responseItem (withOracle b.oracle req).version ((b.ctxOf e).now : Int) (b.extrasOf rs)
              (processRequest (b.ctxOf e) e id (withOracle b.oracle req)).2 = some i := by rw [hres]; exact hi
          have hrange := Encode.request_response_in_range (b.ctxOf e) e id (withOracle b.oracle req) (b.extrasOf rs) i
            hvals hinv hrr (hw.versions e) (hw.clock e) (hw.extras rs) hi' hlen
          obtain ⟨hwf, i', hbi, hval, hf⟩ :=
            C02Encode.server_response_wellformed (b.ctxOf e) e id (withOracle b.oracle req) (b.extrasOf rs) (encode i)
              hb' hrange
          exact ⟨hwf, i', hbi, hval, hf⟩
  · -- an error response
    refine ⟨fun rs h => (by cases h), fun hdr' rsn' h now hnow text htext => ?_⟩
    simp only [Response.error.injEq] at h
    obtain ⟨rfl, rfl⟩ := h
    have hver : hdr.1 < 2147483648 ∧ hdr.2 < 2147483648 := by
      rcases hhdr with rfl | ⟨req, hp, rfl⟩
      · exact ⟨by decide, by decide⟩
      · have := Decode.decode_in_range _ _ _ (hparse req hp)
        simp only [RequestInRange, requestInRange, Bool.and_eq_true, decide_eq_true_eq] at this
        show (verOf req).1 < _ ∧ (verOf req).2 < _
        simp only [verOf]; omega
    have hr : u32 rsn = true := by
      rcases hrsn with hm | ⟨req, id, hp, _, he⟩
      · simp only [sessionReasons, List.mem_cons, List.mem_nil_iff, or_false] at hm
        rcases hm with rfl | rfl | rfl | rfl <;> decide
      · have heng : (serverEnv (world b)).engine e req id = engineEntry (world b) e req id := rfl
        rw [heng] at he
        unfold engineEntry at he
        cases hpr : processRequest ((world b).ctxOf e) e id (withOracle (world b).oracle req) with
        | mk e' res =>
          rw [hpr] at he
          cases res with
          | results rs => simp only at he; cases he
          | rejected reason msg =>
            simp only [EngineOut.kmipError.injEq] at he; subst he
            have := processRequest_rejected ((world b).ctxOf e) e id (withOracle (world b).oracle req) reason msg
              (by rw [hpr])
            subst this; decide
    have hvalid := errorItem_valid hdr now rsn text hver.1 hver.2 hnow hr htext
    exact ⟨C02.encode_wellformed _ hvalid, hvalid, C02.error_response_envelope _ _ _ _⟩

/-- the hypotheses are satisfiable: the demo world of `ServerBytes` (fixed clock 1000, the real version list, no
backend answers, no oracle subtrees) -/
example : WorldOk demoWorld := by
  refine ⟨fun _ => ?_, fun _ => ?_, fun _ cr h => ?_, fun _ => rfl⟩
  · show i64 (Int.ofNat 1000) = true; decide
  · show ∀ v ∈ [10, 11, 12, 13, 14, 20], v < 21474836480; decide
  · cases h

/-- … and states other than the initial one are reachable -/
example (cfg : SessionCfg) (peer : Option Cert) (data : TTLV.Bytes) :
    Reachable demoWorld cfg (handleMessage (serverEnv (world demoWorld)) cfg peer Engine.init data).2 :=
  .frame _ peer data .init

end Kmip.ServerWF
