/-
C11 — Requests are isolated from each other's transient state.
(After the repair of F-C11-a: the ID placeholder is cleared per request.)
-/
import KmipModel.Lemmas.Run
namespace Kmip.C11
open Kmip

/-- **Request isolation.** The response to a request and the resulting store are a
function of the request, the identity, the context (clock, policies) and the
*persistent store* only: a fresh engine opened on the same database answers
identically. -/
theorem request_isolation (c : Ctx) (e : Engine) (id : Identity) (r : Request) :
    (processRequest c e id r).2 = (processRequest c e.restart id r).2 ∧
    (processRequest c e id r).1.store = (processRequest c e.restart id r).1.store := by
  rcases processRequest_cases c e id r with ⟨hs, rsn, m, hr⟩ | hb
  · -- rejected before the loop: the rejection does not look at transient state
    unfold processRequest at hr hs ⊢
    simp only [Engine.restart, Engine.init] at hr hs ⊢
    split_all hr <;> simp_all
  · rcases processRequest_cases c e.restart id r with ⟨hs', rsn, m, hr'⟩ | hb'
    · unfold processRequest at hb hr'
      simp only [Engine.restart, Engine.init] at hb hr'
      split_all hr' <;> simp_all
    · rw [hb, hb']; simp [Engine.restart, Engine.init]

/-- Corollary over histories: whatever happened before — any requests by any clients,
any restarts — the probe's outcome equals its outcome on a fresh engine over the same store. -/
theorem history_independent (steps : List Step) (c : Ctx) (id : Identity) (probe : Request) :
    (processRequest c (run Engine.init steps) id probe).2 =
    (processRequest c (run Engine.init steps).restart id probe).2 :=
  (request_isolation c _ id probe).1

/-- Two engines with the same store answer alike, whatever their placeholder, protocol
version or identity fields hold. -/
theorem same_store_same_answer (c : Ctx) (e1 e2 : Engine) (id : Identity) (r : Request)
    (h : e1.store = e2.store) : (processRequest c e1 id r).2 = (processRequest c e2 id r).2 := by
  have h1 := (request_isolation c e1 id r).1
  have h2 := (request_isolation c e2 id r).1
  rw [h1, h2]
  simp [Engine.restart, h]

/-! Non-vacuity: an engine whose transient fields are all "dirty". -/
def dirty : Engine := { store := Store.empty, placeholder := some "42", version := 20, identity := ⟨some "mallory", some ["admins"]⟩ }
example : dirty ≠ dirty.restart := by decide

end Kmip.C11
