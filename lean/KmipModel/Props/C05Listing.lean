/-
C05 / C16 — which attribute NAMES a full listing reports.

C05: "GetAttributes / GetAttributeList report exactly the attributes supplied at creation plus the
server-assigned ones … under every KMIP version"; C16: "attributes deprecated in a version are not reported
under it", "an attribute introduced in a later version is never sent to a client speaking an earlier one".

`specListed` is the little function the implementation monitor `mon_c05` ("attribute-listing-differs",
harness/lib/monitors_engine.py) evaluates on the real server's answers, written from the specification:

    always: Unique Identifier, Object Type, Initial Date
    Name / Object Group / Application Specific Information: iff the object has at least one instance
    Operation Policy Name: iff version < 2.0        Sensitive: iff version >= 1.4
    State, Cryptographic Usage Mask: iff the object is not an Opaque Object
    Cryptographic Algorithm, Cryptographic Length: iff the object is a symmetric / public / private / split key
    Certificate Type: iff the object is a certificate

`listing_names_eq_spec`: for the REAL rule table (regenerated from kmip/services/server/policy.py on every
run), every supported version and every stored object of a reachable store, the names the engine model's
GetAttributeList returns to a granted requester are exactly these, in the order of the rule table — and the
attributes GetAttributes returns for an empty name list carry exactly these names.

The facts of the table the proof needs are `decide +kernel` obligations with names
(`table_gates_as_specified`, `table_names_distinct`, `table_other_names_have_no_getter`,
`supported_versions_from_1_0`): a change of policy.py that moves an attribute's version, deprecation,
applicability or multiplicity breaks the first one BY NAME of the attribute row.
-/
import KmipModel.Lemmas.Listing
import KmipModel.Props.C15
namespace Kmip.C05Listing
open Kmip Kmip.C15

/-! ### the specification -/

/-- is `n` one of the names a full listing of `o` under version `ver` (10·major+minor) reports? -/
def specListed (o : Obj) (ver : Nat) (n : String) : Bool :=
  n == "Unique Identifier" || n == "Object Type" || n == "Initial Date"
  || (n == "Name" && !o.names.isEmpty)
  || (n == "Object Group" && !o.groups.isEmpty)
  || (n == "Application Specific Information" && !o.appInfo.isEmpty)
  || (n == "Operation Policy Name" && decide (ver < 20))
  || (n == "Sensitive" && decide (14 ≤ ver))
  || ((n == "State" || n == "Cryptographic Usage Mask") && o.otype != OT.opaqueData)
  || ((n == "Cryptographic Algorithm" || n == "Cryptographic Length") && isKeyType o.otype)
  || (n == "Certificate Type" && o.otype == OT.certificate)

/-- the specified names in the order in which the server reports them: the order of the rule table -/
def specNames (o : Obj) (ver : Nat) : List String :=
  (Gen.attrRules.map (·.name)).filter (specListed o ver)

/-- what a reachable store guarantees of each of its objects (`reachable_store_listable`): a stored object type;
a state and a usage mask unless opaque; the `Key` classes are exactly the four key types; a key has an algorithm
and a length; a certificate has a certificate type -/
def Listable (o : Obj) : Prop :=
  o.otype ∈ storedTypes ∧
  (o.otype ≠ OT.opaqueData → o.mask.isSome = true ∧ o.state.isSome = true) ∧
  o.isKey = isKeyType o.otype ∧
  (o.isKey = true → o.alg.isSome = true ∧ o.len.isSome = true) ∧
  (o.otype = OT.certificate → o.subtype.isSome = true)

instance (o : Obj) : Decidable (Listable o) := by unfold Listable; infer_instance

theorem listable_iff (o : Obj) : Listable o ↔ ObjShape o ∧ KeyShape o := by
  unfold Listable ObjShape KeyShape
  constructor
  · rintro ⟨a, b, c, d, e⟩; exact ⟨⟨a, b⟩, c, d, e⟩
  · rintro ⟨⟨a, b⟩, c, d, e⟩; exact ⟨a, b, c, d, e⟩

def StoreListable (s : Store) : Prop := ∀ o ∈ s.objs, Listable o

/-! ### table obligations (re-checked against /repo on every run) -/

def allObjects : List Nat := [1, 2, 3, 4, 5, 6, 7, 8]

/-- KMIP specification (1.0-2.0, attribute tables: "Applies to Object Types", the version that introduced /
removed the attribute, "Multiple instances permitted") for the thirteen attributes the server stores -/
def specGates : List (String × Gate) := [
  ("Unique Identifier",                ⟨allObjects,            10, none,    false⟩),
  ("Name",                             ⟨allObjects,            10, none,    true⟩),
  ("Object Type",                      ⟨allObjects,            10, none,    false⟩),
  ("Cryptographic Algorithm",          ⟨[1, 2, 3, 4, 5, 6],    10, none,    false⟩),   -- keys, certificates, templates
  ("Cryptographic Length",             ⟨[1, 2, 3, 4, 5, 6],    10, none,    false⟩),
  ("Certificate Type",                 ⟨[1],                   10, none,    false⟩),
  ("Operation Policy Name",            ⟨allObjects,            10, some 20, false⟩),   -- gone in 2.0
  ("Cryptographic Usage Mask",         ⟨[1, 2, 3, 4, 5, 6, 7], 10, none,    false⟩),   -- cryptographic objects, templates
  ("State",                            ⟨[1, 2, 3, 4, 5, 7],    10, none,    false⟩),   -- cryptographic objects
  ("Initial Date",                     ⟨allObjects,            10, none,    false⟩),
  ("Object Group",                     ⟨allObjects,            10, none,    true⟩),
  ("Application Specific Information", ⟨allObjects,            10, none,    true⟩),
  ("Sensitive",                        ⟨allObjects,            14, none,    false⟩)]   -- new in 1.4

def tableGate (name : String) : Option Gate :=
  (Gen.attrRules.find? (fun r => r.name == name)).map AttrRule.gate

/-- **the regenerated table gates the thirteen stored attributes as specified**: object types, version added,
version deprecated, multiplicity -/
theorem table_gates_as_specified :
    specGates.all (fun p => tableGate p.1 == some p.2) = true := by decide +kernel

/-- no attribute name has two rules (the listing would report it twice over, and `rule?` would hide the second) -/
theorem table_names_distinct : (Gen.attrRules.map (·.name)).Nodup := by decide +kernel

/-- every other name of the table is an attribute the server does not store: its getter yields `None` -/
theorem table_other_names_have_no_getter :
    Gen.attrRules.all (fun r => specGates.any (fun p => p.1 == r.name) || (getters.lookup r.name).isNone) = true := by
  decide +kernel

/-- no supported version precedes 1.0 -/
theorem supported_versions_from_1_0 : Gen.supportedVersions.all (fun v => decide (10 ≤ v)) = true := by
  decide +kernel

/-! ### the real table -/

theorem rule_of_spec (policies : Policies) (now : Nat) {n : String} {g : Gate} (h : (n, g) ∈ specGates) :
    ∃ r, (realCtx policies now).rule? n = some r ∧ r.gate = g := by
  have := List.all_eq_true.mp table_gates_as_specified (n, g) h
  simp only [tableGate, beq_iff_eq] at this
  simp only [realCtx, Ctx.rule?]
  cases hf : Gen.attrRules.find? (fun r => r.name == n) with
  | none => rw [hf] at this; cases this
  | some r => rw [hf] at this; exact ⟨r, rfl, by simpa using this⟩

theorem listCount_spec (policies : Policies) (now : Nat) (ver : Nat) (o : Obj) {n : String} {g : Gate}
    (h : (n, g) ∈ specGates) :
    listCount (realCtx policies now) ver o n = if g.isOpen ver o.otype then gotCount (gotOf o n) else 0 := by
  obtain ⟨r, hr, hg⟩ := rule_of_spec policies now h
  unfold listCount
  subst hg
  rw [hr]

/-- a rule of the real table either is one of the thirteen specified rows or has no getter -/
theorem rule_cases (policies : Policies) (now : Nat) {n : String} {r : AttrRule}
    (hr : (realCtx policies now).rule? n = some r) :
    (∃ g, (n, g) ∈ specGates ∧ r.gate = g) ∨ ((∀ g, (n, g) ∉ specGates) ∧ getters.lookup n = none) := by
  have hr' : Gen.attrRules.find? (fun r => r.name == n) = some r := hr
  have hmem := List.mem_of_find?_eq_some hr'
  have hname : r.name = n := by simpa using List.find?_some hr'
  by_cases hin : ∃ g, (n, g) ∈ specGates
  · obtain ⟨g, hg⟩ := hin
    obtain ⟨r2, hr2, hg2⟩ := rule_of_spec policies now hg
    rw [hr] at hr2
    cases hr2
    exact Or.inl ⟨g, hg, hg2⟩
  · refine Or.inr ⟨fun g hg => hin ⟨g, hg⟩, ?_⟩
    have := List.all_eq_true.mp table_other_names_have_no_getter r hmem
    rw [hname] at this
    simp only [Bool.or_eq_true, List.any_eq_true, beq_iff_eq, Option.isNone_iff_eq_none] at this
    rcases this with ⟨p, hp, hpn⟩ | h
    · exact absurd ⟨p.2, by rw [← hpn]; exact hp⟩ hin
    · exact h

/-- the multi-valued column of the real table agrees with the getters: the listing loop never raises -/
theorem real_kinds_agree (policies : Policies) (now : Nat) : KindsAgree (realCtx policies now) := by
  intro n r hr o g hg
  rcases rule_cases policies now hr with ⟨gt, hin, hgt⟩ | ⟨_, hno⟩
  · have hm : r.multivalued = gt.multivalued := by rw [← hgt]; rfl
    rw [hm]
    simp only [specGates, List.mem_cons, Prod.mk.injEq, List.mem_nil_iff, or_false] at hin
    rcases hin with ⟨rfl, rfl⟩ | ⟨rfl, rfl⟩ | ⟨rfl, rfl⟩ | ⟨rfl, rfl⟩ | ⟨rfl, rfl⟩ | ⟨rfl, rfl⟩ | ⟨rfl, rfl⟩ |
      ⟨rfl, rfl⟩ | ⟨rfl, rfl⟩ | ⟨rfl, rfl⟩ | ⟨rfl, rfl⟩ | ⟨rfl, rfl⟩ | ⟨rfl, rfl⟩
    · rw [gotOf_uid] at hg; cases hg; rfl
    · rw [gotOf_name] at hg; cases hg; rfl
    · rw [gotOf_otype] at hg; cases hg; rfl
    · rw [gotOf_alg] at hg
      split at hg
      · cases ha : o.alg <;> rw [ha] at hg <;> cases hg; rfl
      · cases hg
    · rw [gotOf_len] at hg
      split at hg
      · cases ha : o.len <;> rw [ha] at hg <;> cases hg; rfl
      · cases hg
    · rw [gotOf_certType] at hg
      split at hg
      · cases ha : o.subtype <;> rw [ha] at hg <;> cases hg; rfl
      · cases hg
    · rw [gotOf_policy] at hg; cases hg; rfl
    · rw [gotOf_mask] at hg
      cases ha : o.mask <;> rw [ha] at hg <;> cases hg; rfl
    · rw [gotOf_state] at hg
      cases ha : o.state <;> rw [ha] at hg <;> cases hg; rfl
    · rw [gotOf_date] at hg; cases hg; rfl
    · rw [gotOf_group] at hg; cases hg; rfl
    · rw [gotOf_app] at hg; cases hg; rfl
    · rw [gotOf_sensitive] at hg; cases hg; rfl
  · rw [gotOf_no_getter hno] at hg; cases hg

theorem specListed_name {o : Obj} {ver : Nat} {n : String} (h : specListed o ver n = true) :
    ∃ g, (n, g) ∈ specGates := by
  have hm : n ∈ specGates.map (·.1) := by
    simp only [specListed, Bool.or_eq_true, Bool.and_eq_true, beq_iff_eq] at h
    simp only [specGates, List.map_cons, List.map_nil, List.mem_cons, List.mem_nil_iff, or_false]
    grind
  obtain ⟨p, hp, rfl⟩ := List.mem_map.mp hm
  exact ⟨p.2, hp⟩

/-- **name by name**: on a listable object and from version 1.0 on, the real table and the getters list a name
exactly when the specification does -/
theorem listed_iff_spec (policies : Policies) (now : Nat) {ver : Nat} {o : Obj} (hv : 10 ≤ ver) (hL : Listable o)
    (n : String) :
    decide (0 < listCount (realCtx policies now) ver o n) = specListed o ver n := by
  by_cases hin : ∃ g, (n, g) ∈ specGates
  · obtain ⟨g, hg⟩ := hin
    rw [listCount_spec policies now ver o hg]
    obtain ⟨hst, hms, hk, hal, hsub⟩ := hL
    simp only [storedTypes, OT.certificate, OT.symmetricKey, OT.publicKey, OT.privateKey, OT.splitKey,
      OT.secretData, OT.opaqueData, List.mem_cons, List.mem_nil_iff, or_false] at hst hms hsub
    simp only [specGates, List.mem_cons, Prod.mk.injEq, List.mem_nil_iff, or_false] at hg
    rcases hg with ⟨rfl, rfl⟩ | ⟨rfl, rfl⟩ | ⟨rfl, rfl⟩ | ⟨rfl, rfl⟩ | ⟨rfl, rfl⟩ | ⟨rfl, rfl⟩ | ⟨rfl, rfl⟩ |
      ⟨rfl, rfl⟩ | ⟨rfl, rfl⟩ | ⟨rfl, rfl⟩ | ⟨rfl, rfl⟩ | ⟨rfl, rfl⟩ | ⟨rfl, rfl⟩ <;>
    rcases hst with h | h | h | h | h | h | h <;>
    simp_all [Gate.isOpen, allObjects, specListed, gotOf_uid, gotOf_name, gotOf_otype, gotOf_alg, gotOf_len,
      gotOf_certType, gotOf_policy, gotOf_mask, gotOf_state, gotOf_date, gotOf_group, gotOf_app, gotOf_sensitive,
      gotCount_none, gotCount_single, gotCount_multi, pos_length_eq, gotCount_map_single, isKeyType,
      OT.certificate, OT.symmetricKey, OT.publicKey, OT.privateKey, OT.splitKey, OT.opaqueData] <;>
    (split <;> simp_all)
  · have hsp : specListed o ver n = false := by
      cases hs : specListed o ver n
      · rfl
      · exact absurd (specListed_name hs) hin
    have hcount : listCount (realCtx policies now) ver o n = 0 := by
      unfold listCount
      cases hr : (realCtx policies now).rule? n with
      | none => rfl
      | some r =>
        rcases rule_cases policies now hr with ⟨g, hg, _⟩ | ⟨_, hno⟩
        · exact absurd ⟨g, hg⟩ hin
        · simp only [gotOf_no_getter hno, gotCount_none, ite_self]
    rw [hsp, hcount]; rfl

/-! ### the set characterisation of `specNames` -/

theorem spec_name_in_table {n : String} {g : Gate} (h : (n, g) ∈ specGates) : n ∈ Gen.attrRules.map (·.name) := by
  obtain ⟨r, hr, _⟩ := rule_of_spec [] 0 h
  have hr' : Gen.attrRules.find? (fun r => r.name == n) = some r := hr
  exact List.mem_map.mpr ⟨r, List.mem_of_find?_eq_some hr', by simpa using List.find?_some hr'⟩

/-- `specNames` is the table-ordered enumeration of exactly the names `specListed` accepts -/
theorem mem_specNames_iff (o : Obj) (ver : Nat) (n : String) : n ∈ specNames o ver ↔ specListed o ver n = true := by
  unfold specNames
  rw [List.mem_filter]
  constructor
  · exact fun h => h.2
  · intro h
    obtain ⟨g, hg⟩ := specListed_name h
    exact ⟨spec_name_in_table hg, h⟩

theorem specNames_nodup (o : Obj) (ver : Nat) : (specNames o ver).Nodup :=
  List.Nodup.sublist List.filter_sublist table_names_distinct

/-- the specification in words -/
theorem mem_specNames_cases (o : Obj) (ver : Nat) :
    "Unique Identifier" ∈ specNames o ver ∧ "Object Type" ∈ specNames o ver ∧ "Initial Date" ∈ specNames o ver ∧
    ("Name" ∈ specNames o ver ↔ o.names ≠ []) ∧
    ("Object Group" ∈ specNames o ver ↔ o.groups ≠ []) ∧
    ("Application Specific Information" ∈ specNames o ver ↔ o.appInfo ≠ []) ∧
    ("Operation Policy Name" ∈ specNames o ver ↔ ver < 20) ∧
    ("Sensitive" ∈ specNames o ver ↔ 14 ≤ ver) ∧
    ("State" ∈ specNames o ver ↔ o.otype ≠ OT.opaqueData) ∧
    ("Cryptographic Usage Mask" ∈ specNames o ver ↔ o.otype ≠ OT.opaqueData) ∧
    ("Cryptographic Algorithm" ∈ specNames o ver ↔ isKeyType o.otype = true) ∧
    ("Cryptographic Length" ∈ specNames o ver ↔ isKeyType o.otype = true) ∧
    ("Certificate Type" ∈ specNames o ver ↔ o.otype = OT.certificate) ∧
    (∀ n ∈ specNames o ver, n ∈ specGates.map (·.1)) := by
  refine ⟨?_, ?_, ?_, ?_, ?_, ?_, ?_, ?_, ?_, ?_, ?_, ?_, ?_, ?_⟩
  all_goals first
    | (rw [mem_specNames_iff]; simp [specListed]; done)
    | (intro n hn
       obtain ⟨g, hg⟩ := specListed_name ((mem_specNames_iff o ver n).mp hn)
       exact List.mem_map.mpr ⟨(n, g), hg, rfl⟩)

/-! ### the model's full listing is the specified one -/

theorem supported_ge_10 {ver : Nat} (h : ver ∈ Gen.supportedVersions) : 10 ≤ ver := by
  simpa using List.all_eq_true.mp supported_versions_from_1_0 ver h

/-- the loop `_get_attributes_from_managed_object(obj, [])` under the real rule table -/
theorem getAttrs_all_spec (policies : Policies) (now : Nat) {ver : Nat} {o : Obj} (hv : 10 ≤ ver) (hL : Listable o) :
    ∃ as, getAttrs (realCtx policies now) ver o [] = .ok as ∧
      (as.map (·.name)).eraseDups = specNames o ver ∧
      (∀ n, (∃ a ∈ as, a.name = n) ↔ n ∈ specNames o ver) := by
  obtain ⟨as, h1, h2, _⟩ :=
    getAttrs_all_names (real_kinds_agree policies now) (c := realCtx policies now) table_names_distinct ver o
  have hf : (fun n => decide (0 < listCount (realCtx policies now) ver o n)) = specListed o ver := by
    funext n; exact listed_iff_spec policies now hv hL n
  rw [hf] at h2
  have h2' : (as.map (·.name)).eraseDups = specNames o ver := h2
  refine ⟨as, h1, h2', fun n => ?_⟩
  rw [← h2', List.mem_eraseDups, List.mem_map]

/-- **The full listing is the specified one.**  Real rule table, every supported version, every listable stored
object (every object of a reachable store: `reachable_store_listable`), a requester the operation policy grants:
GetAttributeList answers exactly `specNames`, in this order; GetAttributes with an empty name list answers
attributes carrying exactly these names (several instances of Name / Object Group / Application Specific
Information). -/
theorem listing_names_eq_spec (policies : Policies) (now : Nat) (e : Engine) (uid : Option String) (o : Obj)
    (hv : e.version ∈ Gen.supportedVersions)
    (hlook : e.store.lookup (uidOr uid e.placeholder) = some o) (hL : Listable o) :
    (Allowed (realCtx policies now) e o Op.getAttributeList →
      opGetAttributeList (realCtx policies now) e uid =
        .ok (.none, .names (showUid (uidOr uid e.placeholder)) (specNames o e.version))) ∧
    (Allowed (realCtx policies now) e o Op.getAttributes →
      ∃ as, opGetAttributes (realCtx policies now) e uid [] =
          .ok (.none, .attrs (showUid (uidOr uid e.placeholder)) as) ∧
        (as.map (·.name)).eraseDups = specNames o e.version ∧
        (∀ n, (∃ a ∈ as, a.name = n) ↔ n ∈ specNames o e.version)) := by
  obtain ⟨as, h1, h2, h3⟩ := getAttrs_all_spec policies now (supported_ge_10 hv) hL
  constructor
  · intro hg
    unfold opGetAttributeList
    simp only [getWithAccess_granted hlook hg, h1, bind, Except.bind, pure, Except.pure, h2]
  · intro hg
    refine ⟨as, ?_, h2, h3⟩
    unfold opGetAttributes
    simp only [getWithAccess_granted hlook hg, h1, bind, Except.bind, pure, Except.pure]

/-- the same, read off a successful answer -/
theorem listing_answer_is_spec {policies : Policies} {now : Nat} {e : Engine} {uid : Option String}
    {eff : Effect} {d : Data} (hv : e.version ∈ Gen.supportedVersions) (hs : StoreListable e.store)
    (h : opGetAttributeList (realCtx policies now) e uid = .ok (eff, d)) :
    ∃ o ∈ e.store.objs, e.store.lookup (uidOr uid e.placeholder) = some o ∧ eff = .none ∧
      d = .names (showUid (uidOr uid e.placeholder)) (specNames o e.version) := by
  have h0 := h
  unfold opGetAttributeList at h
  inv h
  obtain ⟨o, ho, _⟩ := h
  have hg := getWithAccess_ok ho
  have := (listing_names_eq_spec policies now e uid o hv hg.1 (hs o hg.2.1)).1 hg.2.2
  rw [this] at h0
  simp only [Except.ok.injEq, Prod.mk.injEq] at h0
  exact ⟨o, hg.2.1, hg.1, h0.1.symm, h0.2.symm⟩

/-! ### `Listable` is what a reachable store gives -/

theorem init_listable : StoreListable Engine.init.store := by
  intro o h; simp [Engine.init, Store.empty] at h

/-- **Every object of a reachable store is listable**: over any history of decodable requests (`StepsTyped`: rule
tables that protect the four stored protected attributes — the real one does, `C15.rules_protect` — and Register
payloads whose secret has the announced object type, which the decoder guarantees) and restarts. -/
theorem reachable_store_listable (e0 : Engine) (steps : List Step) (hok : StepsTyped steps)
    (hi : e0.store.Inv) (hs : StoreListable e0.store) : StoreListable (run e0 steps).store := by
  have h1 : StoreShape e0.store := fun o ho => ((listable_iff o).mp (hs o ho)).1
  have h2 : StoreKeyShape e0.store := fun o ho => ((listable_iff o).mp (hs o ho)).2
  have r1 := run_shape e0 steps hok hi h1
  have r2 := run_keyShape e0 steps hok.ok hi h2
  exact fun o ho => (listable_iff o).mpr ⟨r1 o ho, r2 o ho⟩

/-- the two combined: whatever a reachable engine answers to GetAttributeList is the specified listing of the
addressed object -/
theorem reachable_listing_is_spec (steps : List Step) (hok : StepsTyped steps) {policies : Policies} {now : Nat}
    {uid : Option String} {eff : Effect} {d : Data}
    (hv : (run Engine.init steps).version ∈ Gen.supportedVersions)
    (h : opGetAttributeList (realCtx policies now) (run Engine.init steps) uid = .ok (eff, d)) :
    ∃ o ∈ (run Engine.init steps).store.objs,
      d = .names (showUid (uidOr uid (run Engine.init steps).placeholder))
            (specNames o (run Engine.init steps).version) := by
  obtain ⟨o, ho, _, _, hd⟩ :=
    listing_answer_is_spec hv (reachable_store_listable Engine.init steps hok Store.inv_empty init_listable) h
  exact ⟨o, ho, hd⟩

/-! ### corollaries -/

/-- **Sensitive is listed exactly from KMIP 1.4 on** (never sent to a client speaking 1.0-1.3) -/
theorem sensitive_listed_iff_1_4 (policies : Policies) (now : Nat) (e : Engine) (uid : Option String) (o : Obj)
    (hv : e.version ∈ Gen.supportedVersions)
    (hlook : e.store.lookup (uidOr uid e.placeholder) = some o) (hL : Listable o)
    (hg : Allowed (realCtx policies now) e o Op.getAttributeList) :
    ∃ ns, opGetAttributeList (realCtx policies now) e uid =
        .ok (.none, .names (showUid (uidOr uid e.placeholder)) ns) ∧
      ("Sensitive" ∈ ns ↔ 14 ≤ e.version) :=
  ⟨_, (listing_names_eq_spec policies now e uid o hv hlook hL).1 hg, (mem_specNames_cases o e.version).2.2.2.2.2.2.2.1⟩

/-- **Operation Policy Name is not listed under KMIP 2.0** (and is listed under every 1.x) -/
theorem policy_name_not_listed_under_2_0 (policies : Policies) (now : Nat) (e : Engine) (uid : Option String) (o : Obj)
    (hv : e.version ∈ Gen.supportedVersions)
    (hlook : e.store.lookup (uidOr uid e.placeholder) = some o) (hL : Listable o)
    (hg : Allowed (realCtx policies now) e o Op.getAttributeList) :
    ∃ ns, opGetAttributeList (realCtx policies now) e uid =
        .ok (.none, .names (showUid (uidOr uid e.placeholder)) ns) ∧
      ("Operation Policy Name" ∈ ns ↔ e.version < 20) ∧ (e.version = 20 → "Operation Policy Name" ∉ ns) := by
  have hc := (mem_specNames_cases o e.version).2.2.2.2.2.2.1
  refine ⟨_, (listing_names_eq_spec policies now e uid o hv hlook hL).1 hg, hc, fun h20 hm => ?_⟩
  have := hc.mp hm
  omega

/-- **The listing depends on the object and the version only**: two engines — whatever else their stores hold,
whatever was asked before (placeholder), whoever asks, under whatever policies and clock — that hold the same
object and speak the same version answer the same names to a granted requester. -/
theorem listing_depends_on_object_and_version_only (p1 p2 : Policies) (now1 now2 : Nat) (e1 e2 : Engine)
    (u1 u2 : Option String) (o : Obj) (hv : e1.version ∈ Gen.supportedVersions) (hver : e2.version = e1.version)
    (h1 : e1.store.lookup (uidOr u1 e1.placeholder) = some o) (h2 : e2.store.lookup (uidOr u2 e2.placeholder) = some o)
    (hL : Listable o)
    (g1 : Allowed (realCtx p1 now1) e1 o Op.getAttributeList) (g2 : Allowed (realCtx p2 now2) e2 o Op.getAttributeList) :
    ∃ ns, opGetAttributeList (realCtx p1 now1) e1 u1 = .ok (.none, .names (showUid (uidOr u1 e1.placeholder)) ns) ∧
          opGetAttributeList (realCtx p2 now2) e2 u2 = .ok (.none, .names (showUid (uidOr u2 e2.placeholder)) ns) := by
  refine ⟨specNames o e1.version, (listing_names_eq_spec p1 now1 e1 u1 o hv h1 hL).1 g1, ?_⟩
  have := (listing_names_eq_spec p2 now2 e2 u2 o (by rw [hver]; exact hv) h2 hL).1 g2
  rw [hver] at this
  exact this

/-! ### non-vacuity: concrete objects, decided through the whole handler -/

/-- an AES-128 key with two names, owned by alice -/
def symKey : Obj :=
  { newObj OT.symmetricKey "00112233445566778899aabbccddeeff" with
    uid := 1, owner := some "alice", policy := "default", names := ["k1", "k2"], initialDate := 1700000000,
    mask := some 12, alg := some 3, len := some 128, format := some 1 }

/-- an opaque object with a group, owned by alice -/
def opaqueObj : Obj :=
  { newObj OT.opaqueData "feed" with
    uid := 2, owner := some "alice", policy := "default", groups := ["g"], initialDate := 1700000000, subtype := some 1 }

def engineAt (ver : Nat) : Engine :=
  { store := { objs := [symKey, opaqueObj], nextUid := 3 }, placeholder := none, version := ver,
    identity := ⟨some "alice", none⟩ }

example : Listable symKey ∧ Listable opaqueObj := by decide
example : Allowed (realCtx Gen.builtinPolicies 0) (engineAt 12) symKey Op.getAttributeList ∧
    Allowed (realCtx Gen.builtinPolicies 0) (engineAt 12) opaqueObj Op.getAttributeList := by
  unfold Allowed; decide +kernel
example : (engineAt 12).store.lookup (uidOr (some "1") (engineAt 12).placeholder) = some symKey := by decide +kernel

/-- KMIP 1.2: no Sensitive -/
example : (opGetAttributeList (realCtx Gen.builtinPolicies 0) (engineAt 12) (some "1")).toOption =
    some (.none, .names "1" ["Unique Identifier", "Name", "Object Type", "Cryptographic Algorithm", "Cryptographic Length",
      "Operation Policy Name", "Cryptographic Usage Mask", "State", "Initial Date"]) := by decide +kernel
example : specNames symKey 12 = ["Unique Identifier", "Name", "Object Type", "Cryptographic Algorithm",
    "Cryptographic Length", "Operation Policy Name", "Cryptographic Usage Mask", "State", "Initial Date"] := by
  decide +kernel
/-- KMIP 1.4: Sensitive appears -/
example : (opGetAttributeList (realCtx Gen.builtinPolicies 0) (engineAt 14) (some "1")).toOption =
    some (.none, .names "1" ["Unique Identifier", "Name", "Object Type", "Cryptographic Algorithm", "Cryptographic Length",
      "Operation Policy Name", "Cryptographic Usage Mask", "State", "Initial Date", "Sensitive"]) := by decide +kernel
example : specNames symKey 14 = ["Unique Identifier", "Name", "Object Type", "Cryptographic Algorithm",
    "Cryptographic Length", "Operation Policy Name", "Cryptographic Usage Mask", "State", "Initial Date",
    "Sensitive"] := by decide +kernel
/-- KMIP 2.0: Operation Policy Name is gone -/
example : (opGetAttributeList (realCtx Gen.builtinPolicies 0) (engineAt 20) (some "1")).toOption =
    some (.none, .names "1" ["Unique Identifier", "Name", "Object Type", "Cryptographic Algorithm", "Cryptographic Length",
      "Cryptographic Usage Mask", "State", "Initial Date", "Sensitive"]) := by decide +kernel
example : specNames symKey 20 = ["Unique Identifier", "Name", "Object Type", "Cryptographic Algorithm",
    "Cryptographic Length", "Cryptographic Usage Mask", "State", "Initial Date", "Sensitive"] := by decide +kernel
/-- GetAttributes with an empty name list, KMIP 1.2: the same names, Name twice (instances 0 and 1) -/
example : (match opGetAttributes (realCtx Gen.builtinPolicies 0) (engineAt 12) (some "1") [] with
    | .ok (.none, .attrs "1" as) => as.map (fun a => (a.name, a.index))
    | _ => []) =
    [("Unique Identifier", none), ("Name", some 0), ("Name", some 1), ("Object Type", none),
     ("Cryptographic Algorithm", none), ("Cryptographic Length", none), ("Operation Policy Name", none),
     ("Cryptographic Usage Mask", none), ("State", none), ("Initial Date", none)] := by decide +kernel
/-- an opaque object under KMIP 1.0: no state, no usage mask, no key or certificate attributes -/
example : (opGetAttributeList (realCtx Gen.builtinPolicies 0) (engineAt 10) (some "2")).toOption =
    some (.none, .names "2" ["Unique Identifier", "Object Type", "Operation Policy Name", "Initial Date",
      "Object Group"]) := by decide +kernel
example : specNames opaqueObj 10 = ["Unique Identifier", "Object Type", "Operation Policy Name", "Initial Date",
    "Object Group"] := by decide +kernel

/-! ### every hypothesis is needed: objects / versions on which the model's listing really differs -/

/-- the names the model's loop reports (real table) -/
def modelNames (o : Obj) (ver : Nat) : Option (List String) :=
  match getAttrs (realCtx [] 0) ver o [] with
  | .ok as => some (as.map (·.name)).eraseDups
  | .error _ => none

/-- a key without an algorithm (no creating handler leaves one: `inserted_keyShape`): the algorithm is not listed -/
example : ¬ Listable { symKey with alg := none } ∧
    modelNames { symKey with alg := none } 12 ≠ some (specNames { symKey with alg := none } 12) := by decide +kernel
/-- a symmetric key whose class has no `state` attribute -/
example : ¬ Listable { symKey with state := none } ∧
    modelNames { symKey with state := none } 12 ≠ some (specNames { symKey with state := none } 12) := by
  decide +kernel
/-- a certificate whose class had the `Key` fields: algorithm and length would be listed (the rule table applies
both to certificates) -/
example : ¬ Listable { symKey with otype := OT.certificate, subtype := some 1 } ∧
    modelNames { symKey with otype := OT.certificate, subtype := some 1 } 12 ≠
      some (specNames { symKey with otype := OT.certificate, subtype := some 1 } 12) := by decide +kernel
/-- a certificate without a certificate type -/
example : ¬ Listable { symKey with otype := OT.certificate, isKey := false } ∧
    modelNames { symKey with otype := OT.certificate, isKey := false } 12 ≠
      some (specNames { symKey with otype := OT.certificate, isKey := false } 12) := by decide +kernel
/-- a stored Template (no handler stores one): State does not apply to it -/
example : ¬ Listable { symKey with otype := OT.template, isKey := false } ∧
    modelNames { symKey with otype := OT.template, isKey := false } 12 ≠
      some (specNames { symKey with otype := OT.template, isKey := false } 12) := by decide +kernel
/-- a version before 1.0 (not supported: `supported_versions_from_1_0`): nothing is listed -/
example : modelNames symKey 9 = some [] ∧ specNames symKey 9 ≠ [] := by decide +kernel

end Kmip.C05Listing
