/-
M17 - HISTORIES of connections against the composed server model (`KmipModel/Server.lean`: `serve` = M7 session x
M14 decoder x M5 engine; `Props/ServerBytes.lean`: + M15 encoder).

A history is a list of steps: a connection (the client certificate the TLS layer hands over and the bytes the
transport delivers, in whatever chunks) or a restart of the server process.  `serveAll` folds `serve` over it.
Proved, for every world, configuration and history:

  * `history_store_inv`            from the empty store, after ANY history, the store is well formed (`Store.Inv`);
  * `history_bytes_wellformed`     every response of every connection of any history (byte-level world with sane
                                   parameters) is well-formed TTLV, the encoding of a valid tree without envelope fault;
  * `connection_isolation`         the events of a connection (what is sent, which identity reached the engine) and the
                                   store it leaves are a function of its own bytes / certificate and of the STORE the
                                   earlier connections left - of nothing else of the engine state (ID placeholder,
                                   identity, protocol version of the last request); the session itself keeps nothing
                                   between frames (the maximum response size and the KMIP version are per frame by
                                   construction of `Session.run`);
                                   `history_connection_isolation`, `history_restarts_invisible`: the same inside histories;
  * `undecodable_connections_are_noops`   a connection all of whose frames are undecodable, or whose client is not
                                   authenticated, leaves the ENGINE (not only its store) as it was and gets exactly one
                                   error response per frame (Invalid Message / Authentication Not Successful);
  * `rejection_state_independent`  a request the engine rejects as a whole is rejected with the same reason and text
                                   in every engine state (used by `Drivers/Server.lean` to find the text).

Tied to /repo by `harness/lib/server_e2e_check.py` (the bytes of every response of generated histories against
`KmipSession` + `KmipEngine`, byte for byte, and the store after every connection).
-/
import KmipModel.Lemmas.ServerRun
import KmipModel.EncodeRequest
namespace Kmip.ServerRun
open Kmip Kmip.Session Kmip.Server Kmip.Encode Kmip.TTLV Kmip.ServerBytes Kmip.ServerWF
open Kmip.EngineResponse (bytesOf verPair)

/-! ## the store invariant over histories -/

/-- **`history_store_inv`.**  From the empty engine, after any list of connections (any bytes, any chunking, any
certificates) and restarts, in every world (any backend, clock, policies, encoder), the store is well formed:
identifiers are unique, below the sequence, and the sequence never went backwards. -/
theorem history_store_inv (w : World) (cfg : SessionCfg) (steps : List HStep) :
    (serveAll w cfg Engine.init steps).2.store.Inv :=
  serveAll_inv w cfg steps Engine.init Store.inv_empty

/-! ## every response of every connection of every history is well-formed TTLV -/

/-- the engine state after any history is reachable: its store is well formed and its values are in range -/
theorem history_reachable (b : ByteWorld) (cfg : SessionCfg) (steps : List HStep) :
    Reachable b cfg (serveAll (world b) cfg Engine.init steps).2 :=
  (serveAll_reachable b cfg steps Engine.init .init).1

/-- **`history_bytes_wellformed`.**  In a byte-level world whose parameters are sane (`WorldOk`: clock, version list,
backend enumerations, oracle subtrees), for EVERY history from the empty store - any bytes, chunkings, certificates,
restarts - every message the session sends for any framed request of any connection is well-formed TTLV: the
engine's response (whenever `write` succeeds at all and stays below 2^32 bytes) is the encoding of a valid tree
without envelope fault that echoes the request's version; an error response is so under the header version it
carries, whatever its time stamp and text (`ServerWF.served_bytes_wellformed`, lifted to histories). -/
theorem history_bytes_wellformed (b : ByteWorld) (cfg : SessionCfg) (hw : WorldOk b) (steps : List HStep) :
    ∀ evs ∈ (serveAll (world b) cfg Engine.init steps).1, ∀ ev ∈ evs, ∀ d o resp,
      ev = Event.handled d o → o.sent = some resp → ∃ e, Reachable b cfg e ∧ SentWF b e d resp := by
  intro evs hevs ev hev d o resp hd hs
  obtain ⟨peer, e, hr, ho⟩ := (serveAll_reachable b cfg steps Engine.init .init).2 evs hevs ev hev d o hd
  subst ho
  exact ⟨e, hr, served_bytes_wellformed b cfg hw e hr peer d resp hs⟩

/-! ## isolation between connections -/

/-- **`connection_isolation`.**  What a connection is answered - every event: the framed requests, the messages
sent for them, the identity that reached the engine - and the store it leaves depend on its own bytes and
certificate and on the STORE it finds, on nothing else of the engine: two engine states with the same store
(whatever ID placeholder, client identity and protocol version the previous connection's last request left behind)
serve it alike.  The session keeps no state of its own between frames: maximum response size and KMIP version are
re-initialised per frame (`Session.evaluate`), so there is nothing else a predecessor could leave. -/
theorem connection_isolation (w : World) (hctx : CtxOfStore w) (cfg : SessionCfg) (peer : Option Cert)
    (e e' : Engine) (c : Conn) (h : e.store = e'.store) :
    (serve w cfg peer e c).1 = (serve w cfg peer e' c).1 ∧
    (serve w cfg peer e c).2.store = (serve w cfg peer e' c).2.store := by
  unfold serve
  rw [run_eq_runReads, run_eq_runReads]
  exact runReads_store_congr w hctx cfg peer _ e e' h

/-- in particular a server restarted before the connection (a fresh engine on the same database) answers it alike -/
theorem connection_isolation_restart (w : World) (hctx : CtxOfStore w) (cfg : SessionCfg) (peer : Option Cert)
    (e : Engine) (c : Conn) :
    (serve w cfg peer e c).1 = (serve w cfg peer e.restart c).1 ∧
    (serve w cfg peer e c).2.store = (serve w cfg peer e.restart c).2.store :=
  connection_isolation w hctx cfg peer e e.restart c rfl

theorem serveAll_store_congr (w : World) (hctx : CtxOfStore w) (cfg : SessionCfg) (steps : List HStep)
    (e e' : Engine) (h : e.store = e'.store) :
    (serveAll w cfg e steps).1 = (serveAll w cfg e' steps).1 ∧
    (serveAll w cfg e steps).2.store = (serveAll w cfg e' steps).2.store := by
  induction steps generalizing e e' with
  | nil => exact ⟨rfl, h⟩
  | cons x xs ih =>
    cases x with
    | conn peer c =>
      simp only [serveAll]
      have h1 := connection_isolation w hctx cfg peer e e' c h
      have h2 := ih _ _ h1.2
      exact ⟨by rw [h1.1, h2.1], h2.2⟩
    | restart =>
      simp only [serveAll]
      exact ih _ _ h

/-- **inside a history**: the events of a connection are those of a FRESH engine on the store its predecessors
left, whatever those predecessors were and whatever transient state they left -/
theorem history_connection_isolation (w : World) (hctx : CtxOfStore w) (cfg : SessionCfg) (e : Engine)
    (pre : List HStep) (peer : Option Cert) (c : Conn) :
    (serveAll w cfg e (pre ++ [.conn peer c])).1 =
      (serveAll w cfg e pre).1 ++ [(serve w cfg peer (serveAll w cfg e pre).2.restart c).1] := by
  rw [serveAll_append]
  simp only [serveAll]
  rw [(connection_isolation_restart w hctx cfg peer _ c).1]

def HStep.isConn : HStep → Bool
  | .conn _ _ => true
  | .restart => false

/-- restarts are invisible: the history without them is answered the same and leaves the same store -/
theorem history_restarts_invisible (w : World) (hctx : CtxOfStore w) (cfg : SessionCfg) (steps : List HStep)
    (e : Engine) :
    (serveAll w cfg e steps).1 = (serveAll w cfg e (steps.filter HStep.isConn)).1 ∧
    (serveAll w cfg e steps).2.store = (serveAll w cfg e (steps.filter HStep.isConn)).2.store := by
  induction steps generalizing e with
  | nil => exact ⟨rfl, rfl⟩
  | cons x xs ih =>
    cases x with
    | conn peer c =>
      simp only [List.filter_cons, HStep.isConn, if_true, serveAll]
      exact ⟨by rw [(ih _).1], (ih _).2⟩
    | restart =>
      simp only [List.filter_cons, HStep.isConn, Bool.false_eq_true, if_false, serveAll]
      have h1 := serveAll_store_congr w hctx cfg xs e.restart e rfl
      exact ⟨by rw [h1.1, (ih e).1], by rw [h1.2, (ih e).2]⟩

/-! ## connections that cannot have an effect -/

/-- **`undecodable_connections_are_noops`.**  A connection all of whose framed requests are undecodable for the
decoder model, or whose client's identity cannot be established (no certificate, no client-authentication usage,
not exactly one common name, refused by the directory) - under any chunking, with `recv` returning nothing now and
then - leaves the engine EXACTLY as it was (store, placeholder, identity, version) and gets exactly one response per
framed request, in order, each an error response with reason Authentication Not Successful or Invalid Message; the
engine is never called. -/
theorem undecodable_connections_are_noops (w : World) (cfg : SessionCfg) (henc : C12.EncoderOk (serverEnv w) cfg)
    (peer : Option Cert) (e : Engine) (c : Conn) (hbad : ∀ f ∈ (frames c).1, NoopFrame w cfg peer f) :
    (serve w cfg peer e c).2 = e ∧
    (serve w cfg peer e c).1.filterMap Event.frame? = (frames c).1 ∧
    ∀ ev ∈ (serve w cfg peer e c).1, ∀ d o, ev = Event.handled d o →
      o.engineCall = none ∧ ∃ hdr rsn, o.sent = some (.error hdr rsn) ∧
        (rsn = SRsn.authenticationNotSuccessful ∨ rsn = SRsn.invalidMessage) := by
  unfold serve
  rw [run_eq_runReads]
  exact runReads_noop w cfg henc peer (reads c) e hbad

/-- the same in the byte-level world, where the encoder contract is a fact (`ServerBytes.encoderOk`) -/
theorem undecodable_connections_are_noops_bytes (b : ByteWorld) (cfg : SessionCfg)
    (ht : ∀ hdr rsn, (b.errText hdr rsn).length + 144 ≤ cfg.maxResponseSize)
    (peer : Option Cert) (e : Engine) (c : Conn) (hbad : ∀ f ∈ (frames c).1, NoopFrame (world b) cfg peer f) :
    (serve (world b) cfg peer e c).2 = e ∧
    (serve (world b) cfg peer e c).1.filterMap Event.frame? = (frames c).1 ∧
    ∀ ev ∈ (serve (world b) cfg peer e c).1, ∀ d o, ev = Event.handled d o →
      o.engineCall = none ∧ ∃ hdr rsn, o.sent = some (.error hdr rsn) ∧
        (rsn = SRsn.authenticationNotSuccessful ∨ rsn = SRsn.invalidMessage) :=
  undecodable_connections_are_noops (world b) cfg (encoderOk b cfg ht) peer e c hbad

/-- a whole history of such connections (and restarts) leaves the store as it was -/
theorem noop_history_store (w : World) (cfg : SessionCfg) (henc : C12.EncoderOk (serverEnv w) cfg)
    (steps : List HStep) (e : Engine)
    (hbad : ∀ s ∈ steps, ∀ peer c, s = HStep.conn peer c → ∀ f ∈ (frames c).1, NoopFrame w cfg peer f) :
    (serveAll w cfg e steps).2.store = e.store := by
  induction steps generalizing e with
  | nil => rfl
  | cons x xs ih =>
    have hxs : ∀ s ∈ xs, ∀ peer c, s = HStep.conn peer c → ∀ f ∈ (frames c).1, NoopFrame w cfg peer f :=
      fun s hs => hbad s (List.mem_cons_of_mem _ hs)
    cases x with
    | conn peer c =>
      simp only [serveAll]
      rw [(undecodable_connections_are_noops w cfg henc peer e c (hbad _ List.mem_cons_self peer c rfl)).1]
      exact ih e hxs
    | restart =>
      simp only [serveAll]
      exact ih e.restart hxs

/-! ## a rejected request is rejected alike in every engine state -/

/-- the checks of `process_request` that reject a request as a whole (protocol version, time stamp, asynchronous
indicator, batch options, batch item IDs) look at the request, the clock and the version list only -/
theorem rejection_state_independent (c : Ctx) (e e' : Engine) (id : Identity) (r : Request) (rsn : Nat) (m : String)
    (h : (processRequest c e id r).2 = .rejected rsn m) : (processRequest c e' id r).2 = .rejected rsn m := by
  unfold processRequest at h ⊢
  simp only at h ⊢
  split at h
  · rw [if_pos (by assumption)]; exact h
  · rw [if_neg (by assumption)]
    split at h
    · exact h
    · split at h
      · rw [if_pos (by assumption)]; exact h
      · rw [if_neg (by assumption)]
        split at h
        · rw [if_pos (by assumption)]; exact h
        · rw [if_neg (by assumption)]
          split at h
          · rw [if_pos (by assumption)]; exact h
          · cases h

/-! ## non-vacuity: a concrete history with a Create and a Get -/

namespace Demo

/-- the real rule table and built-in policies, clock 1000, a backend that answers every item with the same 16 bytes -/
def b : ByteWorld :=
  { ctxOf := fun _ => C13.realCtx Gen.builtinPolicies 1000,
    oracle := fun _ => [.ok "000102030405060708090a0b0c0d0e0f"],
    extrasOf := fun _ => [], errText := sessionText }

def cfg : SessionCfg := C12.demoCfg
def alice : Cert := ⟨some [.clientAuth], ["alice"]⟩
def bob : Cert := ⟨some [.other, .clientAuth], ["bob"]⟩

/-- Create (KMIP 1.2, AES, 128 bits, encrypt | decrypt) and Get of object 1 (KMIP 1.4), as the request encoder model
M16 writes them (byte-equal to what PyKMIP's client sends: `C19Encode`) -/
def createReq : Request :=
  { version := 12, timeStamp := none, async := none, batchOption := none, maxResponseSize := none,
    items := [⟨.create 2 (some ⟨0, [⟨"Cryptographic Algorithm", none, .enum 3⟩, ⟨"Cryptographic Length", none, .int 128⟩,
                                   ⟨"Cryptographic Usage Mask", none, .int 12⟩]⟩), none, .internal⟩] }
def getReq : Request :=
  { version := 14, timeStamp := none, async := none, batchOption := none, maxResponseSize := none,
    items := [⟨.get (some "1") none false none, none, .internal⟩] }
def createFrame : Session.Bytes := EncodeRequest.requestBytes createReq
def getFrame : Session.Bytes := EncodeRequest.requestBytes getReq

/-- alice creates a key; the server is restarted; bob asks for it; alice asks for it (her frame arrives in two pieces) -/
def history : List HStep :=
  [.conn (some alice) (ofChunks [createFrame]), .restart, .conn (some bob) (ofChunks [getFrame]),
   .conn (some alice) (ofChunks [getFrame.take 7, getFrame.drop 7])]

/-- per item: 0 = Success, else the result reason; an error response of the session: 1000 + reason -/
def codes (o : Outcome Request (List ItemResult)) : Option (List Nat) :=
  match o.sent with
  | some (.normal rs) =>
    some (rs.map (fun r => match r.result with | .ok _ => 0 | .error (.kmip rsn _) => rsn | .error (.internal _) => 256))
  | some (.error _ rsn) => some [1000 + rsn]
  | none => none

def h1 := handleMessage (serverEnv (world b)) cfg (some alice) Engine.init createFrame
def h2 := handleMessage (serverEnv (world b)) cfg (some bob) h1.2.restart getFrame
def h3 := handleMessage (serverEnv (world b)) cfg (some alice) h2.2 getFrame

theorem errText_ok (hdr : Ver) (rsn : Nat) : (b.errText hdr rsn).length + 144 ≤ cfg.maxResponseSize := by
  show (sessionText hdr rsn).length + 144 ≤ 1048576
  unfold sessionText
  split
  · decide +kernel
  · split
    · decide +kernel
    · split <;> decide +kernel

/-- the hypotheses of the theorems above hold of this world: `WorldOk`, `CtxOfStore`, the encoder contract -/
example : WorldOk b := by
  refine ⟨fun _ => ?_, fun _ => ?_, fun _ cr h => ?_, fun _ => rfl⟩
  · show i64 (Int.ofNat 1000) = true; decide
  · show ∀ v ∈ Gen.supportedVersions, v < 21474836480; decide
  · simp only [b, List.mem_cons, List.not_mem_nil, or_false] at h
    subst h; decide
example : CtxOfStore (world b) := fun _ _ _ => rfl
example : C12.EncoderOk (serverEnv (world b)) cfg := encoderOk b cfg errText_ok

/-- the history is three handled frames: one per connection, in the engine states the fold threads through -/
theorem history_events :
    serveAll (world b) cfg Engine.init history =
      ([[Event.handled createFrame h1.1], [Event.handled getFrame h2.1], [Event.handled getFrame h3.1]], h3.2) := by
  have henc := encoderOk b cfg errText_ok
  have hc : WellFramed createFrame := by decide +kernel
  have hg : WellFramed getFrame := by decide +kernel
  simp only [history, serveAll, h1, h2, h3]
  rw [serve_one_frame (world b) cfg henc (some alice) Engine.init createFrame hc [createFrame] (by decide +kernel) (by simp)]
  simp only
  rw [serve_one_frame (world b) cfg henc (some bob) _ getFrame hg [getFrame] (by decide +kernel) (by simp)]
  simp only
  rw [serve_one_frame (world b) cfg henc (some alice) _ getFrame hg [getFrame.take 7, getFrame.drop 7] (by decide +kernel)
    (by simp)]

/-- alice's Create succeeds and stores one object; bob's Get is refused (Permission Denied, reason 12: the default
policy lets only the owner read a symmetric key); alice's Get succeeds; bob's identity is still in the engine's
transient state when alice's connection starts - and does not matter (`connection_isolation`) -/
example : codes h1.1 = some [0] ∧ h1.2.store.objs.length = 1 := by decide +kernel
example : codes h2.1 = some [12] ∧ h2.2.identity.user = some "bob" ∧ h2.2.store = h1.2.store := by decide +kernel
example : codes h3.1 = some [0] ∧ h3.1.engineCall.map (·.2.user) = some (some "alice") := by decide +kernel
/-- the bytes alice receives for her Get: 264 of them, carrying the 16 bytes the backend answered for the Create -/
example : (h3.1.sent.bind (sentBytes b 1000 (1, 4))).map List.length = some 264 := by decide +kernel
/-- a connection of undecodable frames: the hypothesis of `undecodable_connections_are_noops` is satisfiable -/
example : ∀ f ∈ (frames (ofChunks [C12.demoFrame])).1, NoopFrame (world b) cfg (some alice) f := by
  have hfr : frames (ofChunks [C12.demoFrame]) = ([C12.demoFrame], []) :=
    C12.frames_of_wellframed [C12.demoFrame] (by intro f hf; simp at hf; rw [hf]; decide) _
      (by intro x hx; simp at hx; rw [hx]; decide) (by simp)
  intro f hf
  rw [hfr] at hf
  simp only [List.mem_cons, List.not_mem_nil, or_false] at hf
  subst hf
  have hbad : (match Decode.decodeFrame (world b).defaultVer C12.demoFrame with
      | .ok _ => true
      | .error _ => false) = false := by decide +kernel
  cases hd : Decode.decodeFrame (world b).defaultVer C12.demoFrame with
  | error err => exact Or.inr ⟨err, hd⟩
  | ok r => rw [hd] at hbad; cases hbad

end Demo

end Kmip.ServerRun
