/-
C19 — The client reports exactly what the server answered.

About model M8 (KmipModel/Client.lean): the result-handling decision of every
client operation (`handle`), the generic request path (`genericHandle`), the
length-prefixed receive loop (`clientRead` / `clientFrames`) and the whole call
(`call`, decoder as a parameter).

All statements are at full strength, for every operation.  The three deviations
found when this check was built — F-C19-a a failed response without a Result
Message raised AttributeError, F-C19-b `check` and F-C19-c `discover_versions`
never reported a failure — were repaired in /repo (fix commits fdfcfa2, 6f5b80b);
the model follows the repaired code, the former `…_partial` statements are now the
unrestricted ones and their witnesses are gone.  A regression of the code shows up
in the correspondence and under the monitors' signatures
`c19:failure-without-message:*`, `c19:failure-not-reported:<op>:*`.
-/
import KmipModel.Client
import KmipModel.Lemmas.Client
namespace Kmip.C19
open Kmip.Client

/-- What the property requires a ProxyKmipClient method to return for a successful
response carrying payload `p`: nothing for Activate / Revoke / Destroy (their
documented return value), the operation's projection of `p` otherwise. -/
def specData {P} (op : Op) (p : P) : Data P :=
  match op with
  | .activate | .revoke | .destroy => .unit
  | _ => .proj p

/-- the operation-failure class an operation raises -/
def failCls (op : Op) : FailCls :=
  match op.style with
  | .generic => .core
  | _ => .pie

/-- the result class a KMIPProxy-only operation answers with -/
def resCls : Op → ResCls
  | .discoverVersions => .discoverVersionsResult
  | .rekeyKeyPair => .rekeyKeyPairResult
  | _ => .queryResult

/-- **client_result_exact.**  For every ProxyKmipClient operation and every response
item: a successful response (operation echoed, payload present — both mandatory in
KMIP) makes the method return exactly the payload data; an unsuccessful one (a
Result Reason is mandatory in KMIP) makes it raise the operation-failure error with
exactly that (status, reason, message) — the message being whatever the response
carries, `none` (Python `None`) when the optional Result Message is absent. -/
theorem client_result_exact {P} (op : Op) (it : Item P) (hpie : op.isPie = true) :
    (∀ p, it.status = 0 → it.echo = .same → it.payload = some p →
        handle op it = .returned (specData op p)) ∧
    (∀ r, it.status ≠ 0 → it.reason = some r →
        handle op it = .failure (failCls op) it.status r it.message) := by
  constructor
  · intro p hs he hp
    cases op <;>
      simp_all [handle, Op.style, Op.isPie, successResultObject, successBatchProcessor, genericHandle,
        Echo.lift, dataOf, specData]
  · intro r hs hr
    cases op <;>
      simp_all [handle, Op.style, Op.isPie, raiseFromResultObject, raiseFromDict, genericHandle, failCls]

/-- **failure_with_message_exact**: the reading with a Result Message present. -/
theorem failure_with_message_exact {P} (op : Op) (it : Item P) (r : Nat) (m : String)
    (hpie : op.isPie = true) (hs : it.status ≠ 0) (hr : it.reason = some r) (hm : it.message = some m) :
    handle op it = .failure (failCls op) it.status r (some m) := by
  rw [← hm]; exact (client_result_exact op it hpie).2 r hs hr

/-- **failure_without_message_exact**: without a Result Message (optional in KMIP) the
failure is still reported exactly, with message `None`, by EVERY ProxyKmipClient operation. -/
theorem failure_without_message_exact {P} (op : Op) (it : Item P) (r : Nat)
    (hpie : op.isPie = true) (hs : it.status ≠ 0) (hr : it.reason = some r) (hm : it.message = none) :
    handle op it = .failure (failCls op) it.status r none := by
  rw [← hm]; exact (client_result_exact op it hpie).2 r hs hr

/-- **never_success_on_failure.**  For every operation and every item whose status is
not Success — with or without reason, message, payload, echoed operation — the client
never returns data; an operation-failure error carries the response's status; a result
object (KMIPProxy-only operations) carries the response's status, reason and message. -/
theorem never_success_on_failure {P} (op : Op) (it : Item P) (hs : it.status ≠ 0) :
    (∀ d, handle op it ≠ .returned d) ∧
    (∀ cls st r m, handle op it = .failure cls st r m → st = it.status ∧ it.reason = some r ∧ m = it.message) ∧
    (∀ cls st r m p, handle op it = .result cls st r m p → st = it.status ∧ r = it.reason ∧ m = it.message) := by
  refine ⟨?_, ?_, ?_⟩
  · intro d
    cases op <;>
      simp [handle, Op.style, hs, raiseFromResultObject, raiseFromDict, genericHandle, proxyResult] <;>
      (repeat' split) <;> simp_all
  · intro cls st r m
    cases op <;>
      simp [handle, Op.style, hs, raiseFromResultObject, raiseFromDict, genericHandle, proxyResult] <;>
      (repeat' split) <;> simp_all
  · intro cls st r m p
    cases op <;>
      simp [handle, Op.style, hs, raiseFromResultObject, raiseFromDict, genericHandle, proxyResult] <;>
      (repeat' split) <;> simp_all

/-- The same for the generic request path with an arbitrary echoed operation. -/
theorem generic_never_success_on_failure {P} (echo : Echo3) (status : Nat) (reason : Option Nat)
    (message : Option String) (payload : Option P) (hs : status ≠ 0) (d : Data P) :
    genericHandle echo status reason message payload ≠ .returned d := by
  simp only [genericHandle, hs, ne_eq, not_false_eq_true, if_true]
  cases reason <;> simp

/-- The generic path returns data only for: Success, the request's operation echoed, payload present. -/
theorem generic_returns_only_matching {P} (echo : Echo3) (status : Nat) (reason : Option Nat)
    (message : Option String) (payload : Option P) (d : Data P)
    (h : genericHandle echo status reason message payload = .returned d) :
    status = 0 ∧ echo = .same ∧ ∃ p, payload = some p ∧ d = .proj p := by
  unfold genericHandle at h
  split at h
  · cases reason <;> simp at h
  · rename_i hs
    have hs0 : status = 0 := by omega
    cases echo <;> cases payload <;> simp at h
    exact ⟨hs0, rfl, _, rfl, h.symm⟩

/-- **proxy_result_exact.**  The KMIPProxy-only operations hand back a result object
with exactly the response's status, reason, message and payload — successful or not. -/
theorem proxy_result_exact {P} (op : Op) (it : Item P) (hprox : op.isPie = false)
    (he : it.echo = .same) :
    handle op it = .result (resCls op) it.status it.reason it.message it.payload := by
  cases op <;> simp_all [handle, Op.style, Op.isPie, proxyResult, resCls]

/-- A request-level error (no operation echoed) reaches the caller of a KMIPProxy-only
operation as a bare OperationResult with the response's status, reason, message. -/
theorem proxy_result_without_operation {P} (op : Op) (it : Item P) (hprox : op.isPie = false)
    (he : it.echo = .absent) :
    handle op it = .result .operationResult it.status it.reason it.message none := by
  cases op <;> simp_all [handle, Op.style, Op.isPie, proxyResult]

/-! ### framing -/

/-- **client_frames_chunk_independent.**  However the transport splits the byte
stream into non-empty `recv()` results, the successive `read()` calls deliver the
same frames / errors. -/
theorem client_frames_chunk_independent (k : Nat) (cs₁ cs₂ : List Bytes)
    (h₁ : NoEmpty cs₁) (h₂ : NoEmpty cs₂) (hsame : cs₁.flatten = cs₂.flatten) :
    clientFrames k cs₁ = clientFrames k cs₂ := by
  rw [clientFrames_eq_streamFrames k cs₁ h₁, clientFrames_eq_streamFrames k cs₂ h₂, hsame]

/-- … and they are the frames of the stream specification (`streamFrames` does not
mention chunks at all). -/
theorem client_frames_eq_stream_frames (k : Nat) (cs : List Bytes) (h : NoEmpty cs) :
    clientFrames k cs = streamFrames k cs.flatten :=
  clientFrames_eq_streamFrames k cs h

/-- a complete length-prefixed message: 8-byte header whose last four bytes give the body length -/
def WellFramed (f : Bytes) : Prop := 8 ≤ f.length ∧ f.length = 8 + msgSize (f.take 8)

instance (f : Bytes) : Decidable (WellFramed f) := by unfold WellFramed; infer_instance

/-- Each response is delivered intact: a stream that starts with a complete message
yields exactly that message, for every chunking. -/
theorem client_frame_intact (cs : List Bytes) (f more : Bytes) (h : NoEmpty cs)
    (hf : WellFramed f) (hs : cs.flatten = f ++ more) :
    (clientRead cs).1 = .ok f := by
  obtain ⟨h1, _, _⟩ := clientRead_spec cs h
  rw [h1, hs]
  obtain ⟨h8, hlen⟩ := hf
  have ht : List.take 8 (f ++ more) = List.take 8 f := by
    rw [List.take_append_of_le_length h8]
  unfold streamRead
  simp only [ht, List.length_append, List.length_drop]
  rw [if_neg (by omega), if_neg (by omega)]
  simp only
  rw [← hlen, List.take_append_of_le_length (Nat.le_refl _), List.take_length]

/-- **truncated_stream_raises.**  If the connection delivers only a proper prefix of a
message — under ANY script of `recv()` results, early empty results included — `read()`
raises (EOFError when nothing arrived, RequestLengthMismatch otherwise); it never
returns a frame. -/
theorem truncated_stream_raises (cs : List Bytes) (f : Bytes) (j : Nat)
    (hf : WellFramed f) (hj : j < f.length) (hs : cs.flatten = f.take j) :
    ∃ e, (clientRead cs).1 = .error e := by
  obtain ⟨h8, hlen⟩ := hf
  have hc := recvAll_conserve 8 cs
  have hl := recvAll_length_le 8 cs
  unfold clientRead
  simp only []
  by_cases hh : (recvAll 8 cs).1.length ≠ 8
  · rw [if_pos hh]; exact ⟨_, rfl⟩
  · rw [if_neg hh]
    have hh8 : (recvAll 8 cs).1.length = 8 := by omega
    have hcl : cs.flatten.length = j := by rw [hs, List.length_take]; omega
    have hj8' : 8 ≤ j := by
      have := congrArg List.length hc
      rw [List.length_append] at this
      omega
    -- the header received is the message's header
    have hhead : (recvAll 8 cs).1 = f.take 8 := by
      have h1 : (recvAll 8 cs).1 = List.take 8 (cs.flatten) := by
        have hcs : cs.flatten = (recvAll 8 cs).1 ++ (recvAll 8 cs).2.flatten := hc.symm
        rw [hcs, List.take_append_of_le_length (by omega)]
        exact (List.take_of_length_le (by omega)).symm
      have hj8 : 8 ≤ j := by
        have := congrArg List.length hc
        rw [hs, List.length_append, List.length_take] at this
        omega
      rw [h1, hs, List.take_take, Nat.min_eq_left hj8]
    have hc2 := recvAll_conserve (msgSize (recvAll 8 cs).1) (recvAll 8 cs).2
    have hrest : (recvAll 8 cs).2.flatten.length = cs.flatten.length - 8 := by
      have := congrArg List.length hc
      rw [List.length_append] at this
      omega
    have hm : msgSize (recvAll 8 cs).1 = msgSize (f.take 8) := by rw [hhead]
    have hshort : (recvAll (msgSize (recvAll 8 cs).1) (recvAll 8 cs).2).1.length
        ≠ msgSize (recvAll 8 cs).1 := by
      have := congrArg List.length hc2
      rw [List.length_append, hrest, hs, List.length_take, Nat.min_eq_left (by omega)] at this
      omega
    rw [if_pos hshort]
    exact ⟨_, rfl⟩

/-! ### the whole call -/

/-- **undecodable_raises.**  When the response cannot be decoded the call raises; it
does not hand data back. -/
theorem undecodable_raises {P} (decode : Bytes → Option (Item P)) (op : Op) (cs : List Bytes)
    (frame : Bytes) (hr : (clientRead cs).1 = .ok frame) (hd : decode frame = none) :
    call decode op cs = .decodeError := by
  simp [call, hr, hd]

/-- A truncated response never becomes data or a Success result, for any decoder. -/
theorem truncated_call_reports_no_success {P} (decode : Bytes → Option (Item P)) (op : Op)
    (cs : List Bytes) (f : Bytes) (j : Nat)
    (hf : WellFramed f) (hj : j < f.length) (hs : cs.flatten = f.take j) :
    (call decode op cs).reportsSuccess = false := by
  obtain ⟨e, he⟩ := truncated_stream_raises cs f j hf hj hs
  simp [call, he, CallOutcome.reportsSuccess]

/-- End to end: the call reports success only if a complete frame arrived, it decoded,
and the decoded item's status is Success. -/
theorem call_success_only_if_server_said_so {P} (decode : Bytes → Option (Item P)) (op : Op)
    (cs : List Bytes) (h : (call decode op cs).reportsSuccess = true) :
    ∃ frame it, (clientRead cs).1 = .ok frame ∧ decode frame = some it ∧ it.status = 0 := by
  unfold call at h
  split at h
  · simp [CallOutcome.reportsSuccess] at h
  · rename_i frame hfr
    split at h
    · simp [CallOutcome.reportsSuccess] at h
    · rename_i it hit
      refine ⟨frame, it, hfr, hit, ?_⟩
      cases hst : decide (it.status = 0) with
      | true => simpa using hst
      | false =>
        have hs : it.status ≠ 0 := by simpa using hst
        obtain ⟨n1, _, n3⟩ := never_success_on_failure op it hs
        cases ho : handle op it with
        | returned d => exact absurd ho (n1 d)
        | failure _ _ _ _ => simp [ho, CallOutcome.reportsSuccess] at h
        | raised _ => simp [ho, CallOutcome.reportsSuccess] at h
        | result cls st r m p =>
          obtain ⟨hst', _, _⟩ := n3 cls st r m p ho
          simp [ho, CallOutcome.reportsSuccess] at h
          omega

/-! ### non-vacuity: the hypotheses above are satisfiable, on literal data -/

/-- a successful Create response item -/
def okItem : Item String := ⟨.same, 0, none, none, some "uid-1"⟩
/-- a failed response item with reason Item Not Found (1) and a message -/
def failItem : Item String := ⟨.same, 1, some 1, some "nope", none⟩
/-- the same without Result Message -/
def failItemNoMsg : Item String := ⟨.same, 1, some 1, none, none⟩

example : handle .create okItem = .returned (.proj "uid-1") := by decide
example : handle .destroy okItem = .returned .unit := by decide
example : handle .create failItem = .failure .pie 1 1 (some "nope") := by decide
example : handle .deleteAttribute failItem = .failure .core 1 1 (some "nope") := by decide
example : handle .encrypt failItemNoMsg = .failure .pie 1 1 none := by decide
example : handle .destroy failItemNoMsg = .failure .pie 1 1 none := by decide
example : handle .setAttribute failItemNoMsg = .failure .core 1 1 none := by decide
example : handle .check failItem = .failure .pie 1 1 (some "nope") := by decide
example : handle .discoverVersions failItem = .result .discoverVersionsResult 1 (some 1) (some "nope") none := by decide
example : handle .query failItem = .result .queryResult 1 (some 1) (some "nope") none := by decide
/-- the hypotheses of `client_result_exact` (both halves), `failure_with_message_exact`,
`failure_without_message_exact` and `proxy_result_exact` are satisfiable -/
example : Op.create.isPie = true ∧ okItem.status = 0 ∧ okItem.echo = .same ∧ okItem.payload = some "uid-1" := by decide
example : Op.check.isPie = true ∧ failItem.status ≠ 0 ∧ failItem.reason = some 1 ∧ failItem.message = some "nope" := by decide
example : Op.destroy.isPie = true ∧ failItemNoMsg.status ≠ 0 ∧ failItemNoMsg.reason = some 1 ∧ failItemNoMsg.message = none := by decide
example : Op.discoverVersions.isPie = false ∧ failItem.echo = .same := by decide

/-- a 2-byte-body message and three ways of delivering it -/
def demoFrame : Bytes := [0x42, 0, 0x7b, 1, 0, 0, 0, 2, 0xAA, 0xBB]
example : WellFramed demoFrame := by decide
example : NoEmpty [demoFrame] := by intro c hc; simp at hc; subst hc; decide
example : clientFrames 2 [demoFrame] = [.ok demoFrame, .error .eof] := by decide
example : clientFrames 2 [[0x42], [0, 0x7b, 1, 0, 0, 0], [2, 0xAA], [0xBB]] = [.ok demoFrame, .error .eof] := by decide
example : clientFrames 1 (demoFrame.map fun b => [b]) = [.ok demoFrame] := by decide
/-- truncated after 9 of 10 bytes; truncated inside the header; an early `b''` -/
example : clientFrames 1 [demoFrame.take 9] = [.error (.lengthMismatch 2 1)] := by decide
example : clientFrames 1 [demoFrame.take 5] = [.error (.lengthMismatch 8 5)] := by decide
example : clientFrames 1 [demoFrame.take 4, [], demoFrame.drop 4] = [.error (.lengthMismatch 8 4)] := by decide
example : ∃ j, j < demoFrame.length ∧ [demoFrame.take 9].flatten = demoFrame.take j := ⟨9, by decide, by decide⟩

end Kmip.C19
