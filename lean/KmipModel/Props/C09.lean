/-
C09 — Crash consistency: acknowledged operations survive, others are all-or-nothing.
PARTIAL: SQLite's atomic commit / journal recovery is the stated hypothesis (built into
`recover`); power loss / fsync are not modelled.  The tie to /repo is (i) the recorded
statement/commit trace of every real operation having the `WellFormed` shape and
(ii) process kills at every statement boundary with the surviving file reopened.
-/
import KmipModel.Txn
import KmipModel.Lemmas.Store
namespace Kmip.C09
open Kmip Kmip.Txn

theorem wf_planOf (n : Nat) : WellFormed (planOf n) :=
  ⟨(List.range n).map Event.write, rfl, by intro ev h; simp only [List.mem_map] at h; obtain ⟨r, _, rfl⟩ := h; exact ⟨r, rfl⟩⟩

/-- **All or nothing at every crash point**: whatever the crash index, the surviving store
is either the store before the operation or the store with the operation wholly applied. -/
theorem crash_all_or_nothing (e : Engine) (eff : Effect) (t : List Event) (k : Nat) :
    recover e eff t k = e.store ∨ recover e eff t k = (applyEffect e eff).store := by
  unfold recover; split <;> simp

theorem writes_no_commit (ws : List Event) (h : ∀ ev ∈ ws, ∃ r, ev = .write r) : ws.contains .commit = false := by
  induction ws with
  | nil => rfl
  | cons x xs ih =>
    obtain ⟨r, rfl⟩ := h _ List.mem_cons_self
    simp only [List.contains_cons]
    rw [ih (fun ev hev => h ev (List.mem_cons_of_mem _ hev))]
    rfl

theorem writes_no_respond (ws : List Event) (h : ∀ ev ∈ ws, ∃ r, ev = .write r) : ws.contains .respond = false := by
  induction ws with
  | nil => rfl
  | cons x xs ih =>
    obtain ⟨r, rfl⟩ := h _ List.mem_cons_self
    simp only [List.contains_cons]
    rw [ih (fun ev hev => h ev (List.mem_cons_of_mem _ hev))]
    rfl

/-- in a well-formed trace the response is only ever produced after the COMMIT -/
theorem ack_implies_committed (t : List Event) (k : Nat) (hw : WellFormed t) (ha : acknowledged t k = true) :
    committed t k = true := by
  obtain ⟨ws, rfl, hws⟩ := hw
  unfold acknowledged at ha
  unfold committed
  by_cases hk : k ≤ ws.length
  · -- only writes executed: no response possible
    rw [List.take_append_of_le_length hk] at ha
    have := writes_no_respond (ws.take k) (fun ev hev => hws ev (List.mem_of_mem_take hev))
    rw [this] at ha; cases ha
  · have hk' : ws.length < k := Nat.lt_of_not_le hk
    rw [List.take_append] at ha ⊢
    obtain ⟨j, hj⟩ : ∃ j, k - ws.length = j + 1 := ⟨k - ws.length - 1, by omega⟩
    simp only [List.take_of_length_le (Nat.le_of_lt hk'), hj, List.take_succ_cons]
    simp

/-- **Acknowledged operations survive**: if the response had been produced before the
process died, the operation is in effect after restart. -/
theorem ack_durable (e : Engine) (eff : Effect) (t : List Event) (k : Nat) (hw : WellFormed t)
    (ha : acknowledged t k = true) : recover e eff t k = (applyEffect e eff).store := by
  unfold recover
  rw [ack_implies_committed t k hw ha]; rfl

/-- before the COMMIT nothing of the operation is visible, however many statements ran -/
theorem uncommitted_invisible (e : Engine) (eff : Effect) (n k : Nat) (hk : k ≤ n) :
    recover e eff (planOf n) k = e.store := by
  unfold recover committed planOf
  have hlen : ((List.range n).map Event.write).length = n := by simp
  rw [List.take_append_of_le_length (by rw [hlen]; exact hk)]
  have := writes_no_commit (((List.range n).map Event.write).take k)
    (fun ev hev => by
      have := List.mem_of_mem_take hev
      simp only [List.mem_map] at this
      obtain ⟨r, _, rfl⟩ := this
      exact ⟨r, rfl⟩)
  rw [this]; rfl

/-- **Never half of a key pair**: CreateKeyPair's effect inserts both keys in the one
transaction, so a recovered store contains both or neither. -/
theorem no_half_pair (e : Engine) (pub priv : Obj) (t : List Event) (k : Nat) :
    let s := recover e (.insert [pub, priv]) t k
    (s = e.store) ∨
    (s.objs = e.store.objs ++ [{ pub with uid := e.store.nextUid }, { priv with uid := e.store.nextUid + 1 }]) := by
  intro s
  rcases crash_all_or_nothing e (.insert [pub, priv]) t k with h | h
  · exact Or.inl h
  · right
    show (recover e (.insert [pub, priv]) t k).objs = _
    rw [h]
    simp [applyEffect, Store.insertAll, Store.insert]

/-- **The store can always be reopened and listed**: every recovered store satisfies the
identifier invariant under which listing and look-ups are defined (given it held before). -/
theorem reopen_total (e : Engine) (eff : Effect) (t : List Event) (k : Nat) (hi : e.store.Inv) :
    (recover e eff t k).Inv := by
  rcases crash_all_or_nothing e eff t k with h | h <;> rw [h]
  · exact hi
  · exact (applyEffect_inv e eff hi).1

/-! Non-vacuity -/
example : acknowledged (planOf 3) 5 = true ∧ committed (planOf 3) 4 = true ∧ committed (planOf 3) 3 = false := by decide

end Kmip.C09
