/-
The composed server model at the level of BYTES: bytes a client sends -> bytes the server answers.

`KmipModel/Server.lean` left one codec-side parameter open: `World.encLen`, the length of an encoded response (the
session compares it with the maximum response size).  Here it is instantiated with the response-encoding model M15
(`KmipModel/Encode.lean`): the world `world b` of a `ByteWorld b` has
    encLen (engine's response rs) v  = length of `responseBytes` of `.results rs` under version v (none: write raises)
    encLen (error response hdr rsn)  = length of the one-item error response with the session's text for it
and the theorems of `Props/Server.lean` / C12 are restated for it: what the client receives for a decoded frame is
`responseBytes` of `processRequest`'s result - or the Response Too Large error response EXACTLY when that is longer
than the maximum the client asked for (C12 `oversize_replaced`, `fitting_response_sent`, reused, not re-proved) - and
these bytes are well-formed TTLV following the envelope (C02Encode).

What stays a parameter of the byte-level world: the clock and policies (`ctxOf`), the cryptography backend
(`oracle`), the oracle subtrees of the results (`extrasOf`: Key Wrapping Data of a wrapped key, split-key fields,
IV / tag of Encrypt - what the engine model's `Data` does not carry), and the TEXT of a session-built error
response (`errText`: `Session.Response.error` records header version and reason, not the message; for a request the
engine rejects as a whole the text is `str(e)`, see `rejected_bytes`).
-/
import KmipModel.Props.Server
import KmipModel.Props.C02Encode
namespace Kmip.ServerBytes
open Kmip Kmip.Session Kmip.Server Kmip.Encode Kmip.TTLV
open Kmip.EngineResponse (bytesOf verPair)

/-- 12 for (1, 2): the version number the engine model and the encoder use -/
def verNum (v : Ver) : Nat := v.1 * 10 + v.2

structure ByteWorld where
  ctxOf : Engine → Ctx
  oracle : Oracle
  /-- oracle subtrees of the items of a response (one list per item) -/
  extrasOf : List ItemResult → List (List TTLV.Item)
  /-- the result message of the error response the session builds for (header version, reason) -/
  errText : Ver → Nat → TTLV.Bytes

/-- `engine.build_error_response(version, reason, message)` -/
def errorItem (hdr : Ver) (now : Int) (reason : Nat) (text : TTLV.Bytes) : TTLV.Item :=
  Envelope.buildErrorResponse ((hdr.1 : Int), (hdr.2 : Int)) now reason text

/-- `len(response_data)` after `response.write(response_data, kmip_version)`; `none`: write raises.  (The time stamp
does not influence it: `responseLen_now`.) -/
def encLen (b : ByteWorld) : Response (List ItemResult) → Ver → Option Nat
  | .normal rs, v => responseLen (verNum v) 0 (b.extrasOf rs) (.results rs)
  | .error hdr rsn, _ => some (encode (errorItem hdr 0 rsn (b.errText hdr rsn))).length

/-- **the byte-level world**: the composed server model with the encoder model plugged in -/
def world (b : ByteWorld) : World := { ctxOf := b.ctxOf, oracle := b.oracle, encLen := encLen b }

/-- the bytes handed to `sendall` for the message the session decided to send, written at time `now` under version `v` -/
def sentBytes (b : ByteWorld) (now : Int) (v : Ver) : Response (List ItemResult) → Option TTLV.Bytes
  | .normal rs => responseBytes (verNum v) now (b.extrasOf rs) (.results rs)
  | .error hdr rsn => some (encode (errorItem hdr now rsn (b.errText hdr rsn)))

/-! ### the time stamp does not change the length -/

theorem buildResponse_length_now (v : Int × Int) (now : Int) (items : List Envelope.ItemResult) :
    (encode (Envelope.buildResponse v now items)).length = (encode (Envelope.buildResponse v 0 items)).length := by
  simp [Envelope.buildResponse, encode, encodeList, PVal.valBytes, be_length, header_length]

theorem buildResponse_validB_now (v : Int × Int) (now : Int) (items : List Envelope.ItemResult) (h : i64 now = true) :
    (Envelope.buildResponse v now items).validB = (Envelope.buildResponse v 0 items).validB := by
  have h1 : fitsTC 8 now := (i64_iff now).1 h
  have h0 : fitsTC 8 (0 : Int) := by decide
  simp [Envelope.buildResponse, Item.validB, validListB, PVal.Valid, encode, encodeList, PVal.valBytes, be_length,
    header_length, h1, h0]

/-- the length of the answer does not depend on when it is written (for a clock that fits a Date-Time) -/
theorem responseLen_now (ver : Nat) (now : Int) (extras : List (List TTLV.Item)) (rs : List ItemResult)
    (h : i64 now = true) : responseLen ver now extras (.results rs) = responseLen ver 0 extras (.results rs) := by
  simp only [responseLen, responseItem]
  cases itemsOf ver extras rs with
  | none => rfl
  | some items =>
    simp only [Option.map_some]
    rw [buildResponse_validB_now _ now items h, buildResponse_length_now _ now items]

theorem verNum_verOf (req : Request) : verNum (verOf req) = req.version := by
  simp only [verNum, verOf]; omega

/-! ### the encoder contract of C12 -/

theorem errorItem_length (hdr : Ver) (now : Int) (rsn : Nat) (text : TTLV.Bytes) :
    (encode (errorItem hdr now rsn text)).length = 136 + text.length + padLen text.length := by
  have p4 : padLen 4 = 4 := rfl
  have p8 : padLen 8 = 0 := rfl
  simp only [errorItem, Envelope.buildErrorResponse, Envelope.buildResponse, Envelope.buildItem, Envelope.optItem,
    List.map_cons, List.map_nil, List.nil_append, encode, encodeList, List.length_append, header_length, PVal.valBytes,
    be_length, zeros_length, List.length_nil, p4, p8]
  omega

/-- **`EncoderOk`** (C12's contract on the encoder parameter) holds in the byte-level world whenever the session's
error texts leave room below its own maximum (they are < 120 bytes; the maximum is 1 MiB) -/
theorem encoderOk (b : ByteWorld) (cfg : SessionCfg)
    (ht : ∀ hdr rsn, (b.errText hdr rsn).length + 144 ≤ cfg.maxResponseSize) :
    C12.EncoderOk (serverEnv (world b)) cfg := by
  refine ⟨fun hdr rsn v => ⟨_, rfl, ?_⟩⟩
  rw [errorItem_length]
  have := ht hdr rsn
  have hp : padLen (b.errText hdr rsn).length < 8 := by unfold padLen; omega
  omega

/-- the texts `_handle_message_loop` uses (session.py l.176-258), by reason, for a connection whose client
certificate passes the certificate stage; a request rejected by the engine as a whole carries `str(e)` instead
(`rejected_bytes`).  Two texts are NOT functions of (header version, reason) alone and were wrong here until the
end-to-end byte comparison M17 (round 8) showed it: Authentication Not Successful says "Error verifying the client
certificate. …" when the CERTIFICATE stage fails (a property of the connection: `Drivers/Server.lean`
`sessionTextOf certStageFails` is the table the byte comparison uses), and the only General Failure the composed model
can send is the one for a response that cannot be written ("… while encoding the response …"; the engine model never
raises anything but a KMIP error out of `process_request`). -/
def sessionText (_hdr : Ver) (rsn : Nat) : TTLV.Bytes :=
  bytesOf (if rsn = SRsn.responseTooLarge then "Response message length too large. See server logs for more information."
    else if rsn = SRsn.invalidMessage then "Error parsing request message. See server logs for more information."
    else if rsn = SRsn.authenticationNotSuccessful then
      "An error occurred during client authentication. See server logs for more information."
    else "An unexpected error occurred while encoding the response. See server logs for more information.")

/-- non-vacuity of `encoderOk`'s hypothesis: the session's own texts under the default configuration -/
example (hdr : Ver) (rsn : Nat) : (sessionText hdr rsn).length + 144 ≤ 1048576 := by
  unfold sessionText
  split
  · decide +kernel
  · split
    · decide +kernel
    · split <;> decide +kernel

/-! ### what the client receives for a decoded frame -/

/-- the maximum the size check uses: the request's Maximum Response Size, else the session's -/
def maxFor (cfg : SessionCfg) (req : Request) : Int :=
  match req.maxResponseSize with
  | some m => (m : Int)
  | none => (cfg.maxResponseSize : Int)

theorem handle_normal (b : ByteWorld) (cfg : SessionCfg) (henc : C12.EncoderOk (serverEnv (world b)) cfg)
    (peer : Option Cert) (e : Engine) (data : TTLV.Bytes) (req : Request) (id : Identity)
    (hd : Decode.decodeFrame (world b).defaultVer data = .ok req) (hid : establish cfg.auth peer = .ok id)
    (rs : List ItemResult)
    (hres : (processRequest (b.ctxOf e) e id (withOracle b.oracle req)).2 = .results rs)
    (n : Nat) (hn : responseLen req.version 0 (b.extrasOf rs) (.results rs) = some n) :
    (handleMessage (serverEnv (world b)) cfg peer e data).1.sent =
      (if (n : Int) > maxFor cfg req then some (.error (verOf req) SRsn.responseTooLarge) else some (.normal rs)) := by
  unfold establish at hid
  cases hc : certStage cfg.auth.tlsClientAuth peer with
  | none => rw [hc] at hid; cases hid
  | some cert =>
    rw [hc] at hid
    simp only at hid
    cases ha : authenticate cfg.auth cert with
    | none => rw [ha] at hid; cases hid
    | some id' =>
      rw [ha] at hid
      cases hid
      have hp : (serverEnv (world b)).parse data = some req := by
        show parse (world b) data = some req
        simp [parse, hd]
      cases hpr : processRequest (b.ctxOf e) e id (withOracle b.oracle req) with
      | mk e' res =>
        rw [hpr] at hres
        simp only at hres
        subst hres
        have hlen : (serverEnv (world b)).encLen (.normal rs) (verOf req) = some n := by
          show encLen b (.normal rs) (verOf req) = some n
          simp only [encLen, verNum_verOf]; exact hn
        cases hm : req.maxResponseSize with
        | none =>
          have he : (serverEnv (world b)).engine e req id = (.ok rs none (verOf req), e') := by
            show engineEntry (world b) e req id = _
            simp only [engineEntry, world, hpr, hm, Option.map_none]
          simp only [maxFor, hm]
          split
          · rename_i hbig
            exact C12.oversize_default _ cfg henc peer cert e e' data req id rs (verOf req) n hc hp ha he hlen
              (by omega)
          · rename_i hfit
            unfold handleMessage evaluate
            simp only [hc, hp, ha, he, emit, sizeCheck, hlen, hfit, if_false]
        | some m =>
          have he : (serverEnv (world b)).engine e req id = (.ok rs (some (m : Int)) (verOf req), e') := by
            show engineEntry (world b) e req id = _
            simp only [engineEntry, world, hpr, hm, Option.map_some]
            rfl
          simp only [maxFor, hm]
          split
          · rename_i hbig
            exact C12.oversize_replaced _ cfg henc peer cert e e' data req id rs m (verOf req) n hc hp ha he hlen hbig
          · rename_i hfit
            exact C12.fitting_response_sent _ cfg peer cert e e' data req id rs m (verOf req) n hc hp ha he hlen
              (by omega)

/-- **TTLV.Bytes in, bytes out.**  For every frame the decoder model accepts, from a client whose identity is
established, whose request the engine model answers item by item (`rs`), when that answer is in range
(`responseInRange` at the time `now` of writing): the engine model ran exactly once on the decoded request, and the
bytes the client receives are

  * `responseBytes` of the engine model's result - well-formed TTLV, no envelope fault - when they are not longer
    than the maximum response size in force (the request's, else the session's), and
  * otherwise - EXACTLY then - the one-item Response Too Large error response under the request's version. -/
theorem decoded_frame_bytes (b : ByteWorld) (cfg : SessionCfg)
    (ht : ∀ hdr rsn, (b.errText hdr rsn).length + 144 ≤ cfg.maxResponseSize)
    (peer : Option Cert) (e : Engine) (data : TTLV.Bytes) (req : Request) (id : Identity) (now : Int)
    (hd : Decode.decodeFrame (world b).defaultVer data = .ok req) (hid : establish cfg.auth peer = .ok id)
    (rs : List ItemResult)
    (hres : (processRequest (b.ctxOf e) e id (withOracle b.oracle req)).2 = .results rs)
    (bs : TTLV.Bytes) (hb : responseBytes req.version now (b.extrasOf rs) (.results rs) = some bs)
    (hr : responseInRange req.version now (b.extrasOf rs) (.results rs) = true) :
    (handleMessage (serverEnv (world b)) cfg peer e data).1.engineCall = some (req, id) ∧
    WF bs ∧
    (((bs.length : Int) ≤ maxFor cfg req ∧
        (handleMessage (serverEnv (world b)) cfg peer e data).1.sent = some (.normal rs) ∧
        sentBytes b now (verOf req) (.normal rs) = some bs) ∨
     ((bs.length : Int) > maxFor cfg req ∧
        (handleMessage (serverEnv (world b)) cfg peer e data).1.sent = some (.error (verOf req) SRsn.responseTooLarge) ∧
        sentBytes b now (verOf req) (.error (verOf req) SRsn.responseTooLarge) =
          some (encode (errorItem (verOf req) now SRsn.responseTooLarge (b.errText (verOf req) SRsn.responseTooLarge))))) := by
  have henc := encoderOk b cfg ht
  have hnow : i64 now = true := by
    simp only [responseInRange, fieldsInRange, Bool.and_eq_true] at hr
    exact hr.1.1.1.1.2
  have hlen : responseLen req.version 0 (b.extrasOf rs) (.results rs) = some bs.length := by
    rw [← responseLen_now _ now _ _ hnow]
    exact C02Encode.responseLen_in_range _ _ _ _ bs hb hr
  have hsent := handle_normal b cfg henc peer e data req id hd hid rs hres bs.length hlen
  have hwf : WF bs := by
    obtain ⟨bs', hb', _, hwf⟩ := C02Encode.responseLen_sound _ _ _ _ _
      (C02Encode.responseLen_in_range _ _ _ _ bs hb hr)
    rw [hb] at hb'; cases hb'; exact hwf
  refine ⟨(ServerProps.decoded_frame_runs_engine (world b) cfg peer e data req id hd hid).1, hwf, ?_⟩
  by_cases hbig : (bs.length : Int) > maxFor cfg req
  · right
    rw [if_pos hbig] at hsent
    exact ⟨hbig, hsent, rfl⟩
  · left
    rw [if_neg hbig] at hsent
    refine ⟨by omega, hsent, ?_⟩
    simp only [sentBytes, verNum_verOf]; exact hb

/-- the envelope of what is sent in the first case (the second is an error response: `C02.error_response_envelope`) -/
theorem decoded_frame_envelope (b : ByteWorld) (req : Request) (now : Int) (rs : List ItemResult) (i : TTLV.Item)
    (h : responseItem req.version now (b.extrasOf rs) (.results rs) = some i) :
    Envelope.faults (some (verPair req.version)) i = [] :=
  C02Encode.response_envelope_always _ _ _ _ i h

/-- **A request the engine rejects as a whole** (unsupported version, stale / future time stamp, asynchronous
indicator, Undo, missing batch item ID): the session answers the error response under the request's version, and
when the world's text for it is the engine's message these bytes are `responseBytes` of the engine model's result. -/
theorem rejected_bytes (b : ByteWorld) (req : Request) (now : Int) (reason : Nat) (msg : String)
    (htext : b.errText (verOf req) reason = bytesOf msg) :
    sentBytes b now (verOf req) (.error (verOf req) reason) =
      responseBytes req.version now [] (.rejected reason msg) := by
  simp only [sentBytes, htext]
  simp only [responseBytes, responseItem, Option.map_some, errorItem, verPair, verOf]

/-- an undecodable frame never reaches the engine and changes nothing, in the byte-level world as in every world -/
theorem undecodable_frame_is_noop (b : ByteWorld) (cfg : SessionCfg) (peer : Option Cert) (e : Engine) (data : TTLV.Bytes)
    (err : Decode.DErr) (h : Decode.decodeFrame (world b).defaultVer data = .error err) :
    (handleMessage (serverEnv (world b)) cfg peer e data).1.engineCall = none ∧
    (handleMessage (serverEnv (world b)) cfg peer e data).2 = e :=
  ServerProps.undecodable_frame_is_noop (world b) cfg peer e data err h

/-- …and is answered with bytes that are well-formed TTLV following the envelope (any error response is) -/
theorem error_response_wellformed (hdr : Ver) (now : Int) (rsn : Nat) (text : TTLV.Bytes)
    (h : (errorItem hdr now rsn text).validB = true) :
    WF (encode (errorItem hdr now rsn text)) ∧
    Envelope.faults (some ((hdr.1 : Int), (hdr.2 : Int))) (errorItem hdr now rsn text) = [] :=
  ⟨C02.encode_wellformed _ (validB_sound _ h), C02.error_response_envelope _ _ _ _⟩

/-- every framed request gets exactly one response in the byte-level world (C12 `one_response_per_frame`) -/
theorem one_response_per_frame (b : ByteWorld) (cfg : SessionCfg)
    (ht : ∀ hdr rsn, (b.errText hdr rsn).length + 144 ≤ cfg.maxResponseSize) :
    C12.OneResponsePerFrame (serverEnv (world b)) cfg :=
  C12.one_response_per_frame _ _ (encoderOk b cfg ht)

/-! ### non-vacuity: a concrete byte-level world -/

def demoWorld : ByteWorld :=
  { ctxOf := fun _ => ⟨[], [], 1000, [10, 11, 12, 13, 14, 20]⟩, oracle := fun _ => [], extrasOf := fun _ => [],
    errText := sessionText }

/-- the Response Too Large error response under 1.2 at time 1000 is 208 bytes, valid, without envelope fault -/
example : (sentBytes demoWorld 1000 (1, 2) (.error (1, 2) SRsn.responseTooLarge)).map List.length = some 208 := by
  decide +kernel
example : (errorItem (1, 2) 1000 SRsn.responseTooLarge (sessionText (1, 2) SRsn.responseTooLarge)).validB = true := by
  decide +kernel
/-- a Query answer (472 bytes) against a maximum of 100 and of 1000 -/
def demoQuery : List ItemResult :=
  [⟨Op.query, none, .ok (.ops [1, 2, 3, 5, 8, 10, 11, 12, 18, 19, 20, 24, 30, 31, 32, 33, 34, 35] true)⟩]
example : encLen demoWorld (.normal demoQuery) (1, 2) = some 472 := by decide +kernel
example : responseInRange 12 1000 [] (.results demoQuery) = true := by decide +kernel

end Kmip.ServerBytes
