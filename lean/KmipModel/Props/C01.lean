/-
C01 — TTLV codec round trip for every encodable value.

Three layers:
 * M2 (`KmipModel/Prim.lean`, the primitive classes of /repo as they are): one round-trip theorem per class
   with exactly the guard the code enforces; every value a constructor accepts is encodable unless its length
   exceeds the 32-bit length field (the former deviations — non-ASCII text, Interval/Enumeration 2^32, the padding
   a decoded Text String wrote — are repaired in /repo and appear here as the now-true full statements);
 * M1 (`KmipModel/TTLV.lean`, the TTLV item tree): `decode (encode i ++ rest) = (i, rest)` for every valid
   item and every suffix — no bound on size or nesting —, `encode (decode bs) = bs` for everything the decoder
   accepts, hence decode-encode-decode stability;
 * the schema layer M3 (`KmipModel/Schema.lean`, Props/C01Schema.lean) for structures.
-/
import KmipModel.Lemmas.TTLVItem
import KmipModel.Lemmas.Prim
namespace Kmip.C01
open Kmip.TTLV Kmip.Prim

/-! ### M2: the primitive classes -/

/-- `write` succeeds exactly on `encodable` -/
theorem prim_encodable_iff (tag : Nat) (v : PyVal) : (∃ bs, pyEncode tag v = .ok bs) ↔ v.encodable := by
  constructor
  · intro ⟨bs, h⟩
    apply Classical.byContradiction
    intro hn
    obtain ⟨e, he⟩ := pyEncode_err tag v hn
    rw [he] at h; cases h
  · intro h; exact ⟨_, pyEncode_eq tag v h⟩

/-- **Primitive round trip.**  Whatever `X(v, tag).write` emits, `X(tag=tag).read` turns back into `v`
and leaves the rest of the stream untouched (for an Enumeration: `v` must be a member of the enum class). -/
theorem prim_decode_encode (tag : Nat) (v : PyVal) (member : Nat → Bool) (bs rest : Bytes)
    (ht : tag < 256 ^ 3) (henc : pyEncode tag v = .ok bs)
    (hm : ∀ x, v = .enumeration x → member x.toNat = true) :
    pyDecode v.typeCode tag member (bs ++ rest) = .ok (v, rest) := by
  have he : v.encodable := (prim_encodable_iff tag v).mp ⟨bs, henc⟩
  rw [pyEncode_eq tag v he] at henc
  cases henc
  exact pyDecode_encode tag v member rest ht he hm

/-- a tag every example below uses (Tags.BATCH_COUNT is 0x42000D) -/
example : (0x42000D : Nat) < 256 ^ 3 := by decide

theorem integer_decode_encode (tag : Nat) (v : Int) (m : Nat → Bool) (rest : Bytes) (ht : tag < 256 ^ 3)
    (h : -2147483648 ≤ v ∧ v ≤ 2147483647) :
    ∃ bs, pyEncode tag (.integer v) = .ok bs ∧ pyDecode 2 tag m (bs ++ rest) = .ok (.integer v, rest) :=
  have he : (PyVal.integer v).encodable := (fitsTC4_iff v).mpr h
  ⟨_, pyEncode_eq tag _ he, pyDecode_encode tag _ m rest ht he (fun _ hx => by cases hx)⟩

theorem longInteger_decode_encode (tag : Nat) (v : Int) (m : Nat → Bool) (rest : Bytes) (ht : tag < 256 ^ 3)
    (h : -9223372036854775808 ≤ v ∧ v ≤ 9223372036854775807) :
    ∃ bs, pyEncode tag (.longInteger v) = .ok bs ∧ pyDecode 3 tag m (bs ++ rest) = .ok (.longInteger v, rest) :=
  have he : (PyVal.longInteger v).encodable := (fitsTC8_iff v).mpr h
  ⟨_, pyEncode_eq tag _ he, pyDecode_encode tag _ m rest ht he (fun _ hx => by cases hx)⟩

/-- every Python int is an encodable BigInteger as long as its encoding stays below 4 GiB -/
theorem bigInteger_decode_encode (tag : Nat) (v : Int) (m : Nat → Bool) (rest : Bytes) (ht : tag < 256 ^ 3)
    (h : pyBigLen v < 256 ^ 4) :
    ∃ bs, pyEncode tag (.bigInteger v) = .ok bs ∧ pyDecode 4 tag m (bs ++ rest) = .ok (.bigInteger v, rest) :=
  ⟨_, pyEncode_eq tag _ h, pyDecode_encode tag _ m rest ht h (fun _ hx => by cases hx)⟩

theorem enumeration_decode_encode (tag : Nat) (v : Int) (m : Nat → Bool) (rest : Bytes) (ht : tag < 256 ^ 3)
    (h : 0 ≤ v ∧ v < 4294967296) (hm : m v.toNat = true) :
    ∃ bs, pyEncode tag (.enumeration v) = .ok bs ∧ pyDecode 5 tag m (bs ++ rest) = .ok (.enumeration v, rest) :=
  ⟨_, pyEncode_eq tag _ h, pyDecode_encode tag _ m rest ht h (fun _ hx => by cases hx; exact hm)⟩

theorem boolean_decode_encode (tag : Nat) (b : Bool) (m : Nat → Bool) (rest : Bytes) (ht : tag < 256 ^ 3) :
    ∃ bs, pyEncode tag (.boolean b) = .ok bs ∧ pyDecode 6 tag m (bs ++ rest) = .ok (.boolean b, rest) :=
  ⟨_, pyEncode_eq tag _ trivial, pyDecode_encode tag _ m rest ht trivial (fun _ hx => by cases hx)⟩

/-- every text (any str, represented by its UTF-8 bytes, see Prim.lean TEXT) shorter than 4 GiB round-trips -/
theorem textString_decode_encode (tag : Nat) (cps : Bytes) (m : Nat → Bool) (rest : Bytes) (ht : tag < 256 ^ 3)
    (h : validUtf8 cps = true ∧ cps.length < 256 ^ 4) :
    ∃ bs, pyEncode tag (.textString cps) = .ok bs ∧ pyDecode 7 tag m (bs ++ rest) = .ok (.textString cps, rest) :=
  ⟨_, pyEncode_eq tag _ h, pyDecode_encode tag _ m rest ht h (fun _ hx => by cases hx)⟩

theorem byteString_decode_encode (tag : Nat) (s : Bytes) (m : Nat → Bool) (rest : Bytes) (ht : tag < 256 ^ 3)
    (h : s.length < 256 ^ 4) :
    ∃ bs, pyEncode tag (.byteString s) = .ok bs ∧ pyDecode 8 tag m (bs ++ rest) = .ok (.byteString s, rest) :=
  ⟨_, pyEncode_eq tag _ h, pyDecode_encode tag _ m rest ht h (fun _ hx => by cases hx)⟩

theorem dateTime_decode_encode (tag : Nat) (v : Int) (m : Nat → Bool) (rest : Bytes) (ht : tag < 256 ^ 3)
    (h : -9223372036854775808 ≤ v ∧ v ≤ 9223372036854775807) :
    ∃ bs, pyEncode tag (.dateTime v) = .ok bs ∧ pyDecode 9 tag m (bs ++ rest) = .ok (.dateTime v, rest) :=
  have he : (PyVal.dateTime v).encodable := (fitsTC8_iff v).mpr h
  ⟨_, pyEncode_eq tag _ he, pyDecode_encode tag _ m rest ht he (fun _ hx => by cases hx)⟩

theorem interval_decode_encode (tag : Nat) (v : Int) (m : Nat → Bool) (rest : Bytes) (ht : tag < 256 ^ 3)
    (h : 0 ≤ v ∧ v < 4294967296) :
    ∃ bs, pyEncode tag (.interval v) = .ok bs ∧ pyDecode 10 tag m (bs ++ rest) = .ok (.interval v, rest) :=
  ⟨_, pyEncode_eq tag _ h, pyDecode_encode tag _ m rest ht h (fun _ hx => by cases hx)⟩

/-- **Everything a constructor accepts can be written**, the 32-bit length field being the only limit: a
constructor accepts the value and `write` raises exactly for Text / Byte Strings of 4 GiB or more and Big Integers
whose encoding would be that long. -/
theorem prim_unencodable_iff (v : PyVal) :
    (v.constructible ∧ ¬ v.encodable) ↔
      ((∃ s, v = .textString s ∧ validUtf8 s = true ∧ 256 ^ 4 ≤ s.length) ∨
       (∃ s, v = .byteString s ∧ 256 ^ 4 ≤ s.length) ∨ (∃ x, v = .bigInteger x ∧ 256 ^ 4 ≤ pyBigLen x)) := by
  cases v with
  | integer x =>
    simp only [PyVal.constructible, PyVal.encodable, fitsTC4_iff, reduceCtorEq, false_and, exists_false,
      or_false, iff_false]
    omega
  | longInteger x =>
    simp only [PyVal.constructible, PyVal.encodable, fitsTC8_iff, reduceCtorEq, false_and, exists_false,
      or_false, iff_false]
    omega
  | dateTime x =>
    simp only [PyVal.constructible, PyVal.encodable, fitsTC8_iff, reduceCtorEq, false_and, exists_false,
      or_false, iff_false]
    omega
  | boolean b => simp [PyVal.constructible, PyVal.encodable]
  | bigInteger x => simp [PyVal.constructible, PyVal.encodable]
  | byteString s => simp [PyVal.constructible, PyVal.encodable]
  | enumeration x =>
    simp only [PyVal.constructible, PyVal.encodable, reduceCtorEq, false_and, exists_false, or_false, iff_false]
    omega
  | interval x =>
    simp only [PyVal.constructible, PyVal.encodable, reduceCtorEq, false_and, exists_false, or_false, iff_false]
    omega
  | textString s =>
    simp only [PyVal.constructible, PyVal.encodable, reduceCtorEq, false_and, exists_false, or_false,
      PyVal.textString.injEq, exists_eq_left']
    constructor
    · rintro ⟨hv, hn⟩
      exact ⟨hv, by
        apply Classical.byContradiction
        intro hlt
        exact hn ⟨hv, by omega⟩⟩
    · rintro ⟨hv, hl⟩
      exact ⟨hv, fun h => by omega⟩

/-- in particular every constructible Integer, Long Integer, Enumeration, Boolean, Date-Time and Interval is
encodable (Interval / Enumeration 2^32 are no longer accepted by the constructors: F-C01-b repaired) -/
theorem fixed_width_constructible_encodable (v : PyVal) (hc : v.constructible)
    (hk : v.typeCode ≠ 4 ∧ v.typeCode ≠ 7 ∧ v.typeCode ≠ 8) : v.encodable := by
  cases v with
  | integer x => exact (fitsTC4_iff x).mpr hc
  | longInteger x => exact (fitsTC8_iff x).mpr hc
  | dateTime x => exact (fitsTC8_iff x).mpr hc
  | boolean b => trivial
  | enumeration x => simp only [PyVal.constructible] at hc; simp only [PyVal.encodable]; omega
  | interval x => simp only [PyVal.constructible] at hc; simp only [PyVal.encodable]; omega
  | bigInteger x => simp [PyVal.typeCode] at hk
  | textString s => simp [PyVal.typeCode] at hk
  | byteString s => simp [PyVal.typeCode] at hk

/-- F-C01-a repaired: non-ASCII text (here "é" = C3 A9) is written and read back -/
theorem textString_nonascii_roundtrip (tag : Nat) (m : Nat → Bool) (rest : Bytes) (ht : tag < 256 ^ 3) :
    ∃ bs, pyEncode tag (.textString [0xC3, 0xA9]) = .ok bs ∧
      pyDecode 7 tag m (bs ++ rest) = .ok (.textString [0xC3, 0xA9], rest) :=
  textString_decode_encode tag _ m rest ht (by decide)

/-- F-C01-b repaired: the constructors reject 2^32 -/
theorem interval_enumeration_2_32_rejected :
    ¬ (PyVal.interval 4294967296).constructible ∧ ¬ (PyVal.enumeration 4294967296).constructible := by
  constructor <;> decide

theorem decodedPad_eq (len : Nat) : decodedPad len = padLen len := by
  unfold decodedPad padLen; split <;> omega

/-- **Re-encoding a decoded primitive reproduces the bytes** — for every value: an object filled by `read`
writes exactly what a constructor-made object of the same value writes. -/
theorem prim_reencode_decoded (tag : Nat) (v : PyVal) : pyReencode tag v = pyEncode tag v := by
  cases v with
  | textString s =>
    by_cases hv : validUtf8 s = true <;> by_cases hl : pyLength (.textString s) < 256 ^ 4 <;>
      simp [pyReencode, pyEncode, pyValue, packText, hv, hl, Except.map, decodedPad_eq]
  | byteString s =>
    unfold pyReencode pyEncode
    split
    · simp only [pyValue, decodedPad_eq]
    · rfl
  | _ =>
    unfold pyReencode pyEncode
    split
    · split <;> simp_all
    · rfl

/-! ### M1: item trees of any size and nesting -/

/-- **Item round trip.**  For every valid item and any bytes after it, the strict decoder (with fuel at least
the length of the encoding) returns exactly the item and the untouched suffix. -/
theorem item_decode_encode (i : Item) (hv : i.Valid) (f : Nat) (rest : Bytes) (hf : (encode i).length ≤ f) :
    decode f (encode i ++ rest) = some (i, rest) :=
  dec_enc i hv f rest hf

/-- sequences of items (the body of a structure) -/
theorem items_decode_encode (ks : List Item) (hv : validList ks) (f : Nat) (hf : (encodeList ks).length + 1 ≤ f) :
    decodeList f (encodeList ks) = some ks :=
  decs_encs ks hv f hf

/-- fuel = input length is enough: a whole message decodes to exactly the item that was encoded -/
theorem decodeAll_encode (i : Item) (hv : i.Valid) : decodeAll (encode i) = some i := by
  unfold decodeAll
  have := dec_enc i hv (encode i).length [] (Nat.le_refl _)
  rw [List.append_nil] at this
  rw [this]

/-- **Re-encoding reproduces the bytes.**  Everything the decoder accepts is a valid item whose encoding is
exactly the consumed prefix. -/
theorem decode_reencode (f : Nat) (bs : Bytes) (i : Item) (rest : Bytes) (h : decode f bs = some (i, rest)) :
    i.Valid ∧ bs = encode i ++ rest :=
  (dec_inv f).1 bs i rest h

/-- **decode-encode-decode.**  For any byte string the decoder accepts, decoding the re-encoding gives the
same item as the first decode. -/
theorem decode_encode_decode (f : Nat) (bs : Bytes) (i : Item) (rest : Bytes) (h : decode f bs = some (i, rest)) :
    decode (encode i).length (encode i) = some (i, []) := by
  obtain ⟨hv, _⟩ := (dec_inv f).1 bs i rest h
  have := dec_enc i hv (encode i).length [] (Nat.le_refl _)
  rwa [List.append_nil] at this

/-- the decoder never reads past the item: a suffix is returned unchanged whatever it is -/
theorem decode_suffix_independent (f : Nat) (bs : Bytes) (i : Item) (rest rest' : Bytes)
    (h : decode f bs = some (i, rest)) (hf : (encode i).length ≤ f) :
    decode f (encode i ++ rest') = some (i, rest') :=
  dec_enc i ((dec_inv f).1 bs i rest h).1 f rest' hf

/-! ### non-vacuity: a nested message-shaped tree with every primitive kind -/

def sample : Item :=
  .struct 0x42007B [
    .struct 0x42007A [
      .struct 0x420069 [.prim 0x42006A (.integer 1), .prim 0x42006B (.integer 4)],
      .prim 0x420092 (.dateTime (-1)),
      .prim 0x42000D (.integer 1)],
    .struct 0x42000F [
      .prim 0x42005C (.enumeration 10),
      .prim 0x42007F (.enumeration 0),
      .struct 0x42007C [
        .prim 0x420094 (.textString [0x31, 0x32, 0x33]),
        .prim 0x420043 (.byteString [1, 2, 3, 4, 5, 6, 7, 8, 9]),
        .prim 0x420008 (.boolean true),
        .prim 0x42004A (.interval 4294967295),
        .prim 0x42002A (.longInteger (-9223372036854775808)),
        .prim 0x420060 (.bigInteger (-9223372036854775809) 16),
        .struct 0x420040 []]]]

theorem sample_valid : sample.Valid := validB_sound sample (by decide +kernel)

example : decodeAll (encode sample) = some sample := decodeAll_encode sample sample_valid

/-- the guards of the per-class theorems are satisfiable at their boundaries -/
example : (PyVal.integer (-2147483648)).encodable ∧ (PyVal.integer 2147483647).encodable := by
  simp only [PyVal.encodable, fitsTC4_iff]; omega
example : (PyVal.textString [0, 127, 0xE6, 0x97, 0xA5, 0xF0, 0x9F, 0x94, 0x91]).encodable := by
  simp only [PyVal.encodable]; decide
example : validUtf8 [0xC0, 0x80] = false ∧ validUtf8 [0xED, 0xA0, 0x80] = false ∧ validUtf8 [0xF4, 0x90, 0x80, 0x80] = false := by
  decide
example : (PyVal.interval 4294967295).encodable := by
  simp [PyVal.encodable]

end Kmip.C01
