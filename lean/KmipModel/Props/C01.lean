/-
C01 — TTLV codec round trip for every encodable value.

Three layers:
 * M2 (`KmipModel/Prim.lean`, the primitive classes of /repo as they are): one round-trip theorem per class
   with exactly the guard the code enforces, the characterisation of the values a constructor accepts but
   `write` rejects (non-ASCII text, Interval/Enumeration 2^32, 4 GiB lengths), with witnesses;
 * M1 (`KmipModel/TTLV.lean`, the TTLV item tree): `decode (encode i ++ rest) = (i, rest)` for every valid
   item and every suffix — no bound on size or nesting —, `encode (decode bs) = bs` for everything the decoder
   accepts, hence decode-encode-decode stability;
 * the schema layer M3 (`KmipModel/Schema.lean`, Props/C01Schema.lean) for structures.
-/
import KmipModel.Lemmas.TTLVItem
import KmipModel.Lemmas.Prim
namespace Kmip.C01
open Kmip.TTLV Kmip.Prim

/-! ### M2: the primitive classes -/

/-- `write` succeeds exactly on `encodable` -/
theorem prim_encodable_iff (tag : Nat) (v : PyVal) : (∃ bs, pyEncode tag v = .ok bs) ↔ v.encodable := by
  constructor
  · intro ⟨bs, h⟩
    apply Classical.byContradiction
    intro hn
    obtain ⟨e, he⟩ := pyEncode_err tag v hn
    rw [he] at h; cases h
  · intro h; exact ⟨_, pyEncode_eq tag v h⟩

/-- **Primitive round trip.**  Whatever `X(v, tag).write` emits, `X(tag=tag).read` turns back into `v`
and leaves the rest of the stream untouched (for an Enumeration: `v` must be a member of the enum class). -/
theorem prim_decode_encode (tag : Nat) (v : PyVal) (member : Nat → Bool) (bs rest : Bytes)
    (ht : tag < 256 ^ 3) (henc : pyEncode tag v = .ok bs)
    (hm : ∀ x, v = .enumeration x → member x.toNat = true) :
    pyDecode v.typeCode tag member (bs ++ rest) = .ok (v, rest) := by
  have he : v.encodable := (prim_encodable_iff tag v).mp ⟨bs, henc⟩
  rw [pyEncode_eq tag v he] at henc
  cases henc
  exact pyDecode_encode tag v member rest ht he hm

/-- a tag every example below uses (Tags.BATCH_COUNT is 0x42000D) -/
example : (0x42000D : Nat) < 256 ^ 3 := by decide

theorem integer_decode_encode (tag : Nat) (v : Int) (m : Nat → Bool) (rest : Bytes) (ht : tag < 256 ^ 3)
    (h : -2147483648 ≤ v ∧ v ≤ 2147483647) :
    ∃ bs, pyEncode tag (.integer v) = .ok bs ∧ pyDecode 2 tag m (bs ++ rest) = .ok (.integer v, rest) :=
  have he : (PyVal.integer v).encodable := (fitsTC4_iff v).mpr h
  ⟨_, pyEncode_eq tag _ he, pyDecode_encode tag _ m rest ht he (fun _ hx => by cases hx)⟩

theorem longInteger_decode_encode (tag : Nat) (v : Int) (m : Nat → Bool) (rest : Bytes) (ht : tag < 256 ^ 3)
    (h : -9223372036854775808 ≤ v ∧ v ≤ 9223372036854775807) :
    ∃ bs, pyEncode tag (.longInteger v) = .ok bs ∧ pyDecode 3 tag m (bs ++ rest) = .ok (.longInteger v, rest) :=
  have he : (PyVal.longInteger v).encodable := (fitsTC8_iff v).mpr h
  ⟨_, pyEncode_eq tag _ he, pyDecode_encode tag _ m rest ht he (fun _ hx => by cases hx)⟩

/-- every Python int is an encodable BigInteger as long as its encoding stays below 4 GiB -/
theorem bigInteger_decode_encode (tag : Nat) (v : Int) (m : Nat → Bool) (rest : Bytes) (ht : tag < 256 ^ 3)
    (h : pyBigLen v < 256 ^ 4) :
    ∃ bs, pyEncode tag (.bigInteger v) = .ok bs ∧ pyDecode 4 tag m (bs ++ rest) = .ok (.bigInteger v, rest) :=
  ⟨_, pyEncode_eq tag _ h, pyDecode_encode tag _ m rest ht h (fun _ hx => by cases hx)⟩

theorem enumeration_decode_encode (tag : Nat) (v : Int) (m : Nat → Bool) (rest : Bytes) (ht : tag < 256 ^ 3)
    (h : 0 ≤ v ∧ v < 4294967296) (hm : m v.toNat = true) :
    ∃ bs, pyEncode tag (.enumeration v) = .ok bs ∧ pyDecode 5 tag m (bs ++ rest) = .ok (.enumeration v, rest) :=
  ⟨_, pyEncode_eq tag _ h, pyDecode_encode tag _ m rest ht h (fun _ hx => by cases hx; exact hm)⟩

theorem boolean_decode_encode (tag : Nat) (b : Bool) (m : Nat → Bool) (rest : Bytes) (ht : tag < 256 ^ 3) :
    ∃ bs, pyEncode tag (.boolean b) = .ok bs ∧ pyDecode 6 tag m (bs ++ rest) = .ok (.boolean b, rest) :=
  ⟨_, pyEncode_eq tag _ trivial, pyDecode_encode tag _ m rest ht trivial (fun _ hx => by cases hx)⟩

/-- text round-trips exactly when it is ASCII (and shorter than 4 GiB) -/
theorem textString_decode_encode (tag : Nat) (cps : List Nat) (m : Nat → Bool) (rest : Bytes) (ht : tag < 256 ^ 3)
    (h : (∀ c ∈ cps, c < 128) ∧ cps.length < 256 ^ 4) :
    ∃ bs, pyEncode tag (.textString cps) = .ok bs ∧ pyDecode 7 tag m (bs ++ rest) = .ok (.textString cps, rest) :=
  ⟨_, pyEncode_eq tag _ h, pyDecode_encode tag _ m rest ht h (fun _ hx => by cases hx)⟩

theorem byteString_decode_encode (tag : Nat) (s : Bytes) (m : Nat → Bool) (rest : Bytes) (ht : tag < 256 ^ 3)
    (h : s.length < 256 ^ 4) :
    ∃ bs, pyEncode tag (.byteString s) = .ok bs ∧ pyDecode 8 tag m (bs ++ rest) = .ok (.byteString s, rest) :=
  ⟨_, pyEncode_eq tag _ h, pyDecode_encode tag _ m rest ht h (fun _ hx => by cases hx)⟩

theorem dateTime_decode_encode (tag : Nat) (v : Int) (m : Nat → Bool) (rest : Bytes) (ht : tag < 256 ^ 3)
    (h : -9223372036854775808 ≤ v ∧ v ≤ 9223372036854775807) :
    ∃ bs, pyEncode tag (.dateTime v) = .ok bs ∧ pyDecode 9 tag m (bs ++ rest) = .ok (.dateTime v, rest) :=
  have he : (PyVal.dateTime v).encodable := (fitsTC8_iff v).mpr h
  ⟨_, pyEncode_eq tag _ he, pyDecode_encode tag _ m rest ht he (fun _ hx => by cases hx)⟩

theorem interval_decode_encode (tag : Nat) (v : Int) (m : Nat → Bool) (rest : Bytes) (ht : tag < 256 ^ 3)
    (h : 0 ≤ v ∧ v < 4294967296) :
    ∃ bs, pyEncode tag (.interval v) = .ok bs ∧ pyDecode 10 tag m (bs ++ rest) = .ok (.interval v, rest) :=
  ⟨_, pyEncode_eq tag _ h, pyDecode_encode tag _ m rest ht h (fun _ hx => by cases hx)⟩

/-- **Constructible but not encodable** — the complete list: a constructor accepts the value (`validate`
passes) and `write` raises exactly for text with a non-ASCII character, Interval / Enumeration 2^32
(`MAX` is one too large), and values whose length does not fit the 32-bit length field. -/
theorem prim_unencodable_iff (v : PyVal) :
    (v.constructible ∧ ¬ v.encodable) ↔
      ((∃ cps, v = .textString cps ∧ ∃ c ∈ cps, 128 ≤ c) ∨ v = .interval 4294967296 ∨ v = .enumeration 4294967296 ∨
       (∃ cps, v = .textString cps ∧ 256 ^ 4 ≤ cps.length) ∨ (∃ s, v = .byteString s ∧ 256 ^ 4 ≤ s.length) ∨
       (∃ x, v = .bigInteger x ∧ 256 ^ 4 ≤ pyBigLen x)) := by
  cases v with
  | integer x =>
    simp only [PyVal.constructible, PyVal.encodable, fitsTC4_iff, reduceCtorEq, false_and, exists_false,
      or_false, iff_false]
    omega
  | longInteger x =>
    simp only [PyVal.constructible, PyVal.encodable, fitsTC8_iff, reduceCtorEq, false_and, exists_false,
      or_false, iff_false]
    omega
  | dateTime x =>
    simp only [PyVal.constructible, PyVal.encodable, fitsTC8_iff, reduceCtorEq, false_and, exists_false,
      or_false, iff_false]
    omega
  | boolean b => simp [PyVal.constructible, PyVal.encodable]
  | bigInteger x => simp [PyVal.constructible, PyVal.encodable]
  | byteString s => simp [PyVal.constructible, PyVal.encodable]
  | enumeration x =>
    simp only [PyVal.constructible, PyVal.encodable, reduceCtorEq, false_and, exists_false, false_or, or_false,
      PyVal.enumeration.injEq]
    omega
  | interval x =>
    simp only [PyVal.constructible, PyVal.encodable, reduceCtorEq, false_and, exists_false, false_or, or_false,
      PyVal.interval.injEq]
    omega
  | textString cps =>
    simp only [PyVal.constructible, PyVal.encodable, true_and, reduceCtorEq, false_and, exists_false, false_or,
      or_false, PyVal.textString.injEq, exists_eq_left']
    constructor
    · intro h
      by_cases hl : cps.length < 256 ^ 4
      · left
        apply Classical.byContradiction
        intro hn
        apply h
        refine ⟨fun c hc => ?_, hl⟩
        apply Classical.byContradiction
        intro hc2
        exact hn ⟨c, hc, by omega⟩
      · right; omega
    · rintro (⟨c, hc, h128⟩ | hl) ⟨hall, hlen⟩
      · have := hall c hc; omega
      · omega

/-- F-C01-a: `TextString('é')` is accepted by the constructor and `write` raises -/
theorem textString_nonascii_unencodable (tag : Nat) :
    (PyVal.textString [233]).constructible ∧ pyEncode tag (.textString [233]) = .error .nonAscii := by
  refine ⟨trivial, ?_⟩
  simp [pyEncode, pyLength, pyValue, packText, Except.map]

/-- F-C01-b: `Interval(4294967296)` is accepted by the constructor and `write` raises -/
theorem interval_2_32_unencodable (tag : Nat) :
    (PyVal.interval 4294967296).constructible ∧ pyEncode tag (.interval 4294967296) = .error .packRange := by
  refine ⟨by decide, ?_⟩
  simp [pyEncode, pyLength, pyValue, packUnsigned, Except.map]

/-- the same off-by-one bound sits in Enumeration (no enum class of /repo has a member 2^32) -/
theorem enumeration_2_32_unencodable (tag : Nat) :
    (PyVal.enumeration 4294967296).constructible ∧ pyEncode tag (.enumeration 4294967296) = .error .packRange := by
  refine ⟨by decide, ?_⟩
  simp [pyEncode, pyLength, pyValue, packUnsigned, Except.map]

/-- **Re-encoding a decoded primitive reproduces the bytes, except** a TextString whose length is a multiple
of 8 (0, 8, 16, …): the decoded object keeps `padding_length = 8` and writes eight extra zero bytes. -/
theorem prim_reencode_decoded_iff (tag : Nat) (v : PyVal) (h : v.encodable) :
    pyReencode tag v = pyEncode tag v ↔ ¬ ∃ cps, v = .textString cps ∧ cps.length % 8 = 0 := by
  cases v with
  | textString cps =>
    rw [pyEncode_eq tag _ h]
    simp only [pyReencode, PyVal.textString.injEq, exists_eq_left']
    by_cases h8 : cps.length % 8 = 0
    · simp only [h8, if_true, not_true, iff_false]
      rw [pyEncode_eq tag _ h]
      simp only [Except.map, Except.ok.injEq]
      intro hc
      have := congrArg List.length hc
      simp [zeros] at this
    · simp only [h8, if_false, not_false_iff, iff_true]
      exact pyEncode_eq tag _ h
  | _ => simp [pyReencode]

/-- e.g. the empty text: written as 8 bytes by the constructor-made object, as 16 by the decoded one -/
theorem textString_reencode_witness :
    pyEncode 0x420055 (.textString []) = .ok [0x42, 0x00, 0x55, 7, 0, 0, 0, 0] ∧
    pyReencode 0x420055 (.textString []) = .ok [0x42, 0x00, 0x55, 7, 0, 0, 0, 0, 0, 0, 0, 0, 0, 0, 0, 0] := by
  constructor <;> rfl

/-! ### M1: item trees of any size and nesting -/

/-- **Item round trip.**  For every valid item and any bytes after it, the strict decoder (with fuel at least
the length of the encoding) returns exactly the item and the untouched suffix. -/
theorem item_decode_encode (i : Item) (hv : i.Valid) (f : Nat) (rest : Bytes) (hf : (encode i).length ≤ f) :
    decode f (encode i ++ rest) = some (i, rest) :=
  dec_enc i hv f rest hf

/-- sequences of items (the body of a structure) -/
theorem items_decode_encode (ks : List Item) (hv : validList ks) (f : Nat) (hf : (encodeList ks).length + 1 ≤ f) :
    decodeList f (encodeList ks) = some ks :=
  decs_encs ks hv f hf

/-- fuel = input length is enough: a whole message decodes to exactly the item that was encoded -/
theorem decodeAll_encode (i : Item) (hv : i.Valid) : decodeAll (encode i) = some i := by
  unfold decodeAll
  have := dec_enc i hv (encode i).length [] (Nat.le_refl _)
  rw [List.append_nil] at this
  rw [this]

/-- **Re-encoding reproduces the bytes.**  Everything the decoder accepts is a valid item whose encoding is
exactly the consumed prefix. -/
theorem decode_reencode (f : Nat) (bs : Bytes) (i : Item) (rest : Bytes) (h : decode f bs = some (i, rest)) :
    i.Valid ∧ bs = encode i ++ rest :=
  (dec_inv f).1 bs i rest h

/-- **decode-encode-decode.**  For any byte string the decoder accepts, decoding the re-encoding gives the
same item as the first decode. -/
theorem decode_encode_decode (f : Nat) (bs : Bytes) (i : Item) (rest : Bytes) (h : decode f bs = some (i, rest)) :
    decode (encode i).length (encode i) = some (i, []) := by
  obtain ⟨hv, _⟩ := (dec_inv f).1 bs i rest h
  have := dec_enc i hv (encode i).length [] (Nat.le_refl _)
  rwa [List.append_nil] at this

/-- the decoder never reads past the item: a suffix is returned unchanged whatever it is -/
theorem decode_suffix_independent (f : Nat) (bs : Bytes) (i : Item) (rest rest' : Bytes)
    (h : decode f bs = some (i, rest)) (hf : (encode i).length ≤ f) :
    decode f (encode i ++ rest') = some (i, rest') :=
  dec_enc i ((dec_inv f).1 bs i rest h).1 f rest' hf

/-! ### non-vacuity: a nested message-shaped tree with every primitive kind -/

def sample : Item :=
  .struct 0x42007B [
    .struct 0x42007A [
      .struct 0x420069 [.prim 0x42006A (.integer 1), .prim 0x42006B (.integer 4)],
      .prim 0x420092 (.dateTime (-1)),
      .prim 0x42000D (.integer 1)],
    .struct 0x42000F [
      .prim 0x42005C (.enumeration 10),
      .prim 0x42007F (.enumeration 0),
      .struct 0x42007C [
        .prim 0x420094 (.textString [0x31, 0x32, 0x33]),
        .prim 0x420043 (.byteString [1, 2, 3, 4, 5, 6, 7, 8, 9]),
        .prim 0x420008 (.boolean true),
        .prim 0x42004A (.interval 4294967295),
        .prim 0x42002A (.longInteger (-9223372036854775808)),
        .prim 0x420060 (.bigInteger (-9223372036854775809) 16),
        .struct 0x420040 []]]]

theorem sample_valid : sample.Valid := validB_sound sample (by decide +kernel)

example : decodeAll (encode sample) = some sample := decodeAll_encode sample sample_valid

/-- the guards of the per-class theorems are satisfiable at their boundaries -/
example : (PyVal.integer (-2147483648)).encodable ∧ (PyVal.integer 2147483647).encodable := by
  simp only [PyVal.encodable, fitsTC4_iff]; omega
example : (PyVal.textString [0, 127]).encodable := by
  simp [PyVal.encodable]
example : (PyVal.interval 4294967295).encodable := by
  simp [PyVal.encodable]

end Kmip.C01
