/-
C07 — Unique identifiers are never reused; a destroyed identifier stays dead.

Model: `Store.nextUid` stands for SQLite's AUTOINCREMENT sequence (trusted runtime
behaviour, exercised by the correspondence incl. engine re-creation on the same file).
All statements are over arbitrary histories of requests by any identities, under
any policies/clock per step, interleaved with restarts.
-/
import KmipModel.Lemmas.Run
namespace Kmip.C07
open Kmip

/-- Reachable stores satisfy the identifier invariant (strictly increasing in row
order, all below the sequence). -/
theorem reachable_inv (steps : List Step) : (run Engine.init steps).store.Inv :=
  (run_inv Engine.init steps Store.inv_empty).1

/-- No two stored objects ever share an identifier. -/
theorem identifiers_unique (steps : List Step) :
    ((run Engine.init steps).store.objs.map (·.uid)).Pairwise (· ≠ ·) := by
  have h := (reachable_inv steps).1
  rw [List.pairwise_map]
  exact h.imp (fun hab => Nat.ne_of_lt hab)

/-- The sequence never goes back: across any further history (including restarts). -/
theorem sequence_monotone (e : Engine) (steps : List Step) (h : e.store.Inv) :
    e.store.nextUid ≤ (run e steps).store.nextUid := (run_inv e steps h).2.1

/-- **Never reused.** An object present after any further history either carries the
identifier of an object that was present before, or a fresh identifier that no
object — past or present — has ever had (≥ the old sequence value, hence larger
than every identifier issued so far). -/
theorem new_identifiers_fresh (e : Engine) (steps : List Step) (h : e.store.Inv) :
    ∀ x ∈ (run e steps).store.objs, (∃ y ∈ e.store.objs, y.uid = x.uid) ∨ e.store.nextUid ≤ x.uid :=
  (run_inv e steps h).2.2

/-- **A destroyed identifier stays dead.** If `u` was issued (`u < nextUid`) and no
stored object has it any more, no later history — by anyone, with restarts — brings
an object with identifier `u` back. -/
theorem destroyed_stays_dead (e : Engine) (u : Nat) (h : e.store.Inv) (hu : u < e.store.nextUid)
    (hdead : ∀ o ∈ e.store.objs, o.uid ≠ u) (steps : List Step) :
    ∀ o ∈ (run e steps).store.objs, o.uid ≠ u := by
  intro o ho heq
  rcases new_identifiers_fresh e steps h o ho with ⟨y, hy, hyo⟩ | hge
  · exact hdead y hy (hyo.trans heq)
  · omega

/-- Destroy really removes the identifier (and nothing else). -/
theorem destroy_removes (e : Engine) (u : Nat) :
    (∀ o ∈ (applyEffect e (.delete u)).store.objs, o.uid ≠ u) ∧
    (∀ o ∈ e.store.objs, o.uid ≠ u → o ∈ (applyEffect e (.delete u)).store.objs) := by
  simp only [applyEffect, Store.delete, List.mem_filter]
  constructor
  · intro o ho; simpa using ho.2
  · intro o ho hne; exact ⟨ho, by simpa using hne⟩

/-- Every operation on a dead identifier fails as not found, with the same text as
for an identifier that never existed. -/
theorem dead_not_found (c : Ctx) (e : Engine) (uid : Option String) (op : Nat)
    (h : e.store.lookup uid = none) :
    getWithAccess c e uid op = .error (.kmip Rsn.itemNotFound (notFoundMsg uid)) := by
  simp [getWithAccess, h, kerr]

/-- an identifier string denoting a dead `u` addresses nothing -/
theorem lookup_dead (e : Engine) (s : String) (u : Nat) (hs : parseUid s = some u)
    (hdead : ∀ o ∈ e.store.objs, o.uid ≠ u) : e.store.lookup (some s) = none := by
  simp only [Store.lookup, hs, Store.find]
  rw [List.find?_eq_none]
  intro o ho
  simpa using hdead o ho

theorem locateFilter_sub (c : Ctx) (attrs : List TAttr) (l r : List Obj)
    (h : locateFilter c attrs l = .ok r) : ∀ x ∈ r, x ∈ l := by
  induction l generalizing r with
  | nil => simp [locateFilter, pure, Except.pure] at h; subst h; simp
  | cons o os ih =>
    unfold locateFilter at h
    inv h
    obtain ⟨keep, _, rest, hrest, rfl⟩ := h
    intro x hx
    split at hx
    · simp only [List.mem_cons] at hx ⊢
      rcases hx with rfl | hx
      · exact Or.inl rfl
      · exact Or.inr (ih rest hrest x hx)
    · exact List.mem_cons_of_mem _ (ih rest hrest x hx)

theorem insertDesc_mem (o x : Obj) (l : List Obj) (h : x ∈ insertDesc o l) : x = o ∨ x ∈ l := by
  induction l with
  | nil => simpa [insertDesc] using h
  | cons y ys ih =>
    simp only [insertDesc] at h
    split at h
    · simp only [List.mem_cons] at h ⊢; exact h
    · simp only [List.mem_cons] at h ⊢
      rcases h with rfl | h
      · exact Or.inr (Or.inl rfl)
      · rcases ih h with rfl | h
        · exact Or.inl rfl
        · exact Or.inr (Or.inr h)

theorem sortDesc_mem (x : Obj) (l : List Obj) (h : x ∈ sortDesc l) : x ∈ l := by
  induction l with
  | nil => simpa [sortDesc] using h
  | cons y ys ih =>
    simp only [sortDesc] at h
    rcases insertDesc_mem y x _ h with rfl | h
    · exact List.mem_cons_self
    · exact List.mem_cons_of_mem _ (ih h)

theorem slice_mem {α} (x : α) (l : List α) (o m : Option Int) (h : x ∈ slice l o m) : x ∈ l := by
  unfold slice at h
  split at h
  · exact List.mem_of_mem_take (List.mem_of_mem_drop h)
  · exact List.mem_of_mem_drop h
  · exact List.mem_of_mem_take h
  · exact h

/-- Locate only ever returns identifiers of objects that are in the store (so never a
dead one) and that the requester may locate. -/
theorem locate_only_live (c : Ctx) (e : Engine) (m o : Option Int) (as : List TAttr) (eff : Effect) (us : List String)
    (h : opLocate c e m o as = .ok (eff, .uids us)) :
    ∀ s ∈ us, ∃ x ∈ e.store.objs, s = toString x.uid ∧ Allowed c e x Op.locate := by
  unfold opLocate at h
  inv h
  obtain ⟨matched, hm, _, hd⟩ := h
  simp only [Data.uids.injEq] at hd
  subst hd
  intro s hs
  simp only [List.mem_map] at hs
  obtain ⟨x, hx, rfl⟩ := hs
  have hx1 := sortDesc_mem x _ (slice_mem x _ _ _ hx)
  have hx2 : x ∈ listWithAccess c e Op.locate := by
    unfold locateMatched at hm
    split at hm
    · simp only [pure, Except.pure, Except.ok.injEq] at hm; subst hm; exact hx1
    · exact locateFilter_sub c as _ _ hm x hx1
  simp only [listWithAccess, List.mem_filter] at hx2
  exact ⟨x, hx2.1, rfl, hx2.2⟩

/-! Non-vacuity: a concrete reachable state with a dead identifier. -/
def demoCtx : Ctx := { rules := [], policies := [], now := 5, supportedVersions := [12] }
def demoObj (u : Nat) : Obj := { (newObj 2 "00") with uid := u }
def demoEngine : Engine := { Engine.init with store := { objs := [demoObj 1, demoObj 3], nextUid := 4 } }
example : demoEngine.store.Inv ∧ 2 < demoEngine.store.nextUid ∧ ∀ o ∈ demoEngine.store.objs, o.uid ≠ 2 := by
  refine ⟨⟨?_, ?_⟩, ?_, ?_⟩ <;> simp [demoEngine, demoObj, Engine.init]

/-! A store an EARLIER run of the server left behind (the fixtures of `corpus/legacy_db`, on which the same statements
are checked against the real engine): `emptied` - three objects created and all destroyed, the allocator stands at 4 and
there are no rows; `mixed` - identifiers 8 and 13 dead, the allocator at 14.  The theorems above start from ANY store
with the invariant, so they cover histories that begin on such a file: -/
def emptiedStore : Engine := { Engine.init with store := { objs := [], nextUid := 4 } }
def mixedStore : Engine :=
  { Engine.init with store := { objs := [1, 2, 3, 4, 5, 6, 7, 9, 10, 11, 12].map demoObj, nextUid := 14 } }

theorem emptied_inv : emptiedStore.store.Inv := by
  refine ⟨?_, ?_⟩ <;> simp [emptiedStore, Engine.init]

theorem mixed_inv : mixedStore.store.Inv := by
  refine ⟨?_, ?_⟩ <;> simp [mixedStore, demoObj, Engine.init] <;> decide

/-- on the emptied file no history ever brings identifier 1, 2 or 3 back, and every object it creates is numbered 4 or more -/
theorem emptied_file_never_reuses (steps : List Step) :
    ∀ o ∈ (run emptiedStore steps).store.objs, 4 ≤ o.uid := by
  intro o ho
  rcases new_identifiers_fresh emptiedStore steps emptied_inv o ho with ⟨y, hy, _⟩ | h
  · simp [emptiedStore, Engine.init] at hy
  · simpa [emptiedStore, Engine.init] using h

/-- on the mixed file the dead identifiers 8 and 13 stay dead through every history -/
theorem mixed_file_dead_stay_dead (steps : List Step) :
    ∀ o ∈ (run mixedStore steps).store.objs, o.uid ≠ 8 ∧ o.uid ≠ 13 := by
  intro o ho
  refine ⟨destroyed_stays_dead mixedStore 8 mixed_inv (by simp [mixedStore, Engine.init]) ?_ steps o ho,
          destroyed_stays_dead mixedStore 13 mixed_inv (by simp [mixedStore, Engine.init]) ?_ steps o ho⟩ <;>
    simp [mixedStore, demoObj, Engine.init]

end Kmip.C07
