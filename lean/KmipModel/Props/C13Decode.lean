import KmipModel.Lemmas.Decode
import KmipModel.Props.C13
namespace Kmip.C13Decode
open Kmip Kmip.Decode

def valOkDB (c : Ctx) (name : String) (v : AVal) : Bool :=
  (match inspected.lookup name with | some k => v.kind == k | none => true) &&
  (match v with
   | .other => (match c.rule? name with | some r => r.multivalued | none => true)
   | _ => true)

def attrOkDB (c : Ctx) : Option TAttr → Bool
  | none => true
  | some a => valOkDB c a.name a.value

def templateOkDB (c : Ctx) : Option Template → Bool
  | none => true
  | some t => t.attrs.all (fun a => valOkDB c a.name a.value)

/-- executable `DecoderWT` -/
def decoderWTB (c : Ctx) (e : Engine) (it : Item) : Bool :=
  match it.payload with
  | .create _ t => templateOkDB c t
  | .createKeyPair cm pr pu => templateOkDB c cm && templateOkDB c pr && templateOkDB c pu
  | .register _ t _ => templateOkDB c t
  | .deriveKey _ us t _ _ => templateOkDB c t && !us.isEmpty
  | .locate _ _ as => as.all (fun a => valOkDB c a.name a.value)
  | .query fs => !fs.isEmpty
  | .setAttribute _ a => valOkDB c a.name a.value
  | .modifyAttribute _ a cu nw =>
      (if e.version ≥ 20 then nw.isSome && attrOkDB c nw else a.isSome && attrOkDB c a) && attrOkDB c cu
  | .deleteAttribute _ _ _ cu _ => attrOkDB c cu
  | _ => true

end Kmip.C13Decode
