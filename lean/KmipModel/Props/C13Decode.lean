/-
C13 through the decoder (M14): the hypothesis "well typed" of `C13.no_internal_error` is DERIVED from the model of
the request decoder (`KmipModel/Decode.lean`, transcribed from the `read()` methods of /repo and tied to them by
`harness/lib/decode_check.py` on every run) instead of being assumed.

  decode_wellTyped            every item of a decoded request satisfies `DecoderWT` = `C13.WellTyped` minus
                              (a) the cryptography-oracle conjuncts and (b) non-negativity of a Cryptographic Length
  wellTyped_of_decoder        DecoderWT ∧ LengthsNonneg ∧ OracleOk → C13.WellTyped
  decoded_no_internal_error   decoded request + reachable store shape + admissible backend answer + no negative
                              Cryptographic Length  ⇒  `processOperation` never ends in the internal-error outcome
  decode_version              a decoded request with at least one item names one of the six KMIP versions (≥ 1.0)
  decode_register_type        the secret of a decoded Register has the ANNOUNCED object type

Hypotheses that REMAIN in `decoded_no_internal_error` and why:
  * `StoreShape e.store`     — an invariant of every history (`C13.reachable_store_shape`), not a decoder matter;
  * `OracleOk`               — the backend answers bytes of the requested size / a pair / a verdict / a KMIP error;
  * `LengthsNonneg`          — a Cryptographic Length in the request is not negative.  The wire type is a signed
                               Integer, so the decoder cannot promise it; the engine model stores lengths as naturals
                               and `C13.ValOk` asks for it.  The correspondence counts the decoded items it excludes.
Everything else `WellTyped` asks (value kinds by attribute name, structure values only under multivalued names, New
Attribute under 2.0 / Attribute under 1.x for ModifyAttribute, at least one identifier for DeriveKey and one function
for Query, version ≥ 1.0) is proved here from the decoder.
-/
import KmipModel.Lemmas.Decode
import KmipModel.Props.C13
namespace Kmip.C13Decode
open Kmip Kmip.Decode

def valOkDB (c : Ctx) (name : String) (v : AVal) : Bool :=
  (match inspected.lookup name with | some k => v.kind == k | none => true) &&
  (match v with
   | .other => (match c.rule? name with | some r => r.multivalued | none => true)
   | _ => true)

def attrOkDB (c : Ctx) : Option TAttr → Bool
  | none => true
  | some a => valOkDB c a.name a.value

def templateOkDB (c : Ctx) : Option Template → Bool
  | none => true
  | some t => t.attrs.all (fun a => valOkDB c a.name a.value)

/-- executable `DecoderWT` -/
def decoderWTB (c : Ctx) (e : Engine) (it : Item) : Bool :=
  match it.payload with
  | .create _ t => templateOkDB c t
  | .createKeyPair cm pr pu => templateOkDB c cm && templateOkDB c pr && templateOkDB c pu
  | .register _ t _ => templateOkDB c t
  | .deriveKey _ us t _ _ => templateOkDB c t && !us.isEmpty
  | .locate _ _ as => as.all (fun a => valOkDB c a.name a.value)
  | .query fs => !fs.isEmpty
  | .setAttribute _ a => valOkDB c a.name a.value
  | .modifyAttribute _ a cu nw =>
      (if e.version ≥ 20 then nw.isSome && attrOkDB c nw else a.isSome && attrOkDB c a) && attrOkDB c cu
  | .deleteAttribute _ _ _ cu _ => attrOkDB c cu
  | _ => true


/-! ## What the decoder guarantees -/

/-- `C13.WellTyped` without the oracle conjuncts and without `ValOk.nonneg` -/
def DecoderWT (c : Ctx) (e : Engine) (it : Item) : Prop := PayloadOkD c e.version it.payload

theorem realRules (ps : Policies) (now : Nat) : RealRules (C13.realCtx ps now) := rfl

theorem headerBody_sat : Sat headerBody (fun hd => ∀ v, hd.version = some v → 10 ≤ v) := by
  unfold headerBody
  refine Sat.bind (Sat.triv _) (fun pv _ => ?_)
  refine Sat.bind (Sat.triv _) (fun _ _ => ?_)
  refine Sat.bind (Sat.triv _) (fun _ _ => ?_)
  refine Sat.bind (Sat.triv _) (fun _ _ => ?_)
  refine Sat.bind (Sat.triv _) (fun _ _ => ?_)
  refine Sat.bind (Sat.triv _) (fun _ _ => ?_)
  refine Sat.bind (Sat.triv _) (fun _ _ => ?_)
  refine Sat.bind (Sat.triv _) (fun _ _ => ?_)
  refine Sat.bind (Sat.triv _) (fun _ _ => ?_)
  exact Sat.pure (fun v h => kmipVersion_ge pv v h)

/-- the items of a decoded request were all read under the request's own (known) version, and whatever every
payload reader guarantees (`Q`) holds of each of them -/
theorem decode_items_gen {Q : Nat → Payload → Prop} (hq : PayloadSat Q) {dv : Nat} {t : TItem} {req : Request}
    (h : decodeRequest dv t = .ok req) :
    ∀ it ∈ req.items, 10 ≤ req.version ∧ Q req.version it.payload := by
  unfold decodeRequest at h
  split at h
  · rename_i tg kids
    split at h
    · split at h
      · rename_i hd rest
        split at h
        · split at h
          · cases h
          · rename_i hdr hhdr
            have hv := inStruct_dsat headerBody_sat hd hdr hhdr
            split at h
            · cases h
            · rename_i items hitems
              have hit := takeItems_ok hq hdr.version hv _ _ _ hitems
              split at h
              · cases h
              · cases h
                intro it hmem
                obtain ⟨v, hver, hge, hp⟩ := hit it hmem
                simp only [hver, Option.getD_some]
                exact ⟨hge, hp⟩
        · cases h
      · cases h
    · cases h
  · cases h

theorem decode_items {c : Ctx} (hc : RealRules c) {dv : Nat} {t : TItem} {req : Request}
    (h : decodeRequest dv t = .ok req) :
    ∀ it ∈ req.items, 10 ≤ req.version ∧ PayloadOkD c req.version it.payload :=
  decode_items_gen (payloadBody_sat hc) h

/-- **decode_register_type**: the secret of a decoded Register was parsed by the class of the ANNOUNCED object
type, so its type is the announced one -/
theorem decode_register_type {dv : Nat} {t : TItem} {req : Request} (h : decodeRequest dv t = .ok req) :
    ∀ it ∈ req.items, ∀ ot tm o, it.payload = .register ot tm (some o) → o.otype = ot := by
  intro it hit ot tm o hp
  have := (decode_items_gen payloadBody_registerTyped h it hit).2
  rw [hp] at this
  exact this

/-- **decode_wellTyped**: every batch item of every request the decoder accepts is well typed (decoder part),
in the context the server runs with and under the version the request itself announces. -/
theorem decode_wellTyped (ps : Policies) (now : Nat) (store : Store) (id : Identity) {dv : Nat} {t : TItem}
    {req : Request} (h : decodeRequest dv t = .ok req) :
    ∀ it ∈ req.items, DecoderWT (C13.realCtx ps now) ⟨store, none, req.version, id⟩ it :=
  fun it hit => (decode_items (realRules ps now) h it hit).2

/-- the version hypothesis of `no_internal_error` comes from the header decode -/
theorem decode_version {dv : Nat} {t : TItem} {req : Request} (h : decodeRequest dv t = .ok req)
    (hne : req.items ≠ []) : 10 ≤ req.version := by
  cases hi : req.items with
  | nil => exact absurd hi hne
  | cons it rest => exact (decode_items (realRules [] 0) h it (by rw [hi]; exact List.mem_cons_self)).1

/-- an `.error` never yields a request (the decoder is a total function into `Except`) -/
theorem decode_error_no_request {dv : Nat} {t : TItem} {e : DErr} (h : decodeRequest dv t = .error e) :
    ∀ req, decodeRequest dv t ≠ .ok req := by
  intro req hr; rw [h] at hr; cases hr

/-- determinism at the byte level: a frame has one decoding -/
theorem decodeFrame_deterministic {dv : Nat} {bs : Kmip.TTLV.Bytes} {r1 r2 : D Request}
    (h1 : decodeFrame dv bs = r1) (h2 : decodeFrame dv bs = r2) : r1 = r2 := h1.symm.trans h2

/-! ## From the decoder's guarantee to `C13.WellTyped` -/

def AttrLenOk (a : TAttr) : Prop := a.name = "Cryptographic Length" → a.value.nonneg

def TemplateLenOk : Option Template → Prop
  | none => True
  | some t => ∀ a ∈ t.attrs, AttrLenOk a

/-- no Cryptographic Length carried by the payload is negative -/
def LengthsNonneg : Payload → Prop
  | .create _ t => TemplateLenOk t
  | .createKeyPair cm pr pu => TemplateLenOk cm ∧ TemplateLenOk pr ∧ TemplateLenOk pu
  | .register _ t _ => TemplateLenOk t
  | .deriveKey _ _ t _ _ => TemplateLenOk t
  | .locate _ _ as => ∀ a ∈ as, AttrLenOk a
  | .setAttribute _ a => AttrLenOk a
  | .modifyAttribute _ a cu nw =>
      (∀ x, a = some x → AttrLenOk x) ∧ (∀ x, cu = some x → AttrLenOk x) ∧ (∀ x, nw = some x → AttrLenOk x)
  | .deleteAttribute _ _ _ cu _ => ∀ x, cu = some x → AttrLenOk x
  | _ => True

/-- the cryptography backend answered admissibly for this item (the oracle conjuncts of `C13.WellTyped`) -/
def OracleOk (c : Ctx) (e : Engine) (it : Item) : Prop :=
  match it.payload with
  | .create _ t => it.crypto.FitsCreate c e.version t
  | .createKeyPair .. => it.crypto.IsPair
  | .deriveKey .. => it.crypto.IsBytes
  | .get _ _ _ w => w = none ∨ C13.Crypto.Token it.crypto
  | .encrypt .. | .decrypt .. | .sign .. | .signatureVerify .. | .mac .. => C13.Crypto.Sane it.crypto
  | _ => True

theorem valOk_of {c : Ctx} {a : TAttr} (h : AttrOkD c a) (hl : AttrLenOk a) : ValOk c a.name a.value :=
  ⟨h.kind, hl, h.struct⟩

theorem templateOk_of {c : Ctx} {t : Option Template} (h : TemplateOkD c t) (hl : TemplateLenOk t) : TemplateOk? c t := by
  cases t with
  | none => trivial
  | some t => intro a ha; exact valOk_of (h a ha) (hl a ha)

/-- **DecoderWT ∧ oracle conditions (∧ no negative length) → WellTyped** -/
theorem wellTyped_of_decoder {c : Ctx} {e : Engine} {it : Item}
    (hd : DecoderWT c e it) (hl : LengthsNonneg it.payload) (ho : OracleOk c e it) : C13.WellTyped c e it := by
  obtain ⟨pl, bid, cr⟩ := it
  cases pl <;> simp only [DecoderWT, PayloadOkD, LengthsNonneg, OracleOk, C13.WellTyped] at hd hl ho ⊢
  case create ot t => exact ⟨templateOk_of hd hl, ho⟩
  case createKeyPair cm pr pu =>
    exact ⟨templateOk_of hd.1 hl.1, templateOk_of hd.2.1 hl.2.1, templateOk_of hd.2.2 hl.2.2, ho⟩
  case register ot t o => exact templateOk_of hd hl
  case deriveKey ot us t dd dl => exact ⟨templateOk_of hd.1 hl, hd.2, ho⟩
  case locate mx off as => intro a ha; exact valOk_of (hd a ha) (hl a ha)
  case get u f cp w => exact ho
  case query fs => exact hd
  case encrypt u p => exact ho
  case decrypt u p => exact ho
  case sign u p => exact ho
  case signatureVerify u p => exact ho
  case mac u a d => exact ho
  case setAttribute u a => exact valOk_of hd hl
  case modifyAttribute u a cu nw =>
    refine ⟨fun hv => ?_, fun hv => ?_, fun cur hcur => valOk_of (hd.2.2 cur hcur) (hl.2.1 cur hcur)⟩
    · obtain ⟨n, hn, hok⟩ := hd.1 hv
      exact ⟨n, hn, valOk_of hok (hl.2.2 n hn)⟩
    · obtain ⟨x, hx, hok⟩ := hd.2.1 hv
      exact ⟨x, hx, valOk_of hok (hl.1 x hx)⟩
  case deleteAttribute u n i cu r => intro cur hcur; exact valOk_of (hd cur hcur) (hl cur hcur)

/-- **C13 through the decoder**: take any request the decoder accepts, any of its items, any engine state whose
store has the reachable shape and whose version is the request's, any admissible answer `cr` of the cryptography
backend; if the item carries no negative Cryptographic Length, processing it never ends in the internal-error
outcome (= the General Failure answer). -/
theorem decoded_no_internal_error (ps : Policies) (now : Nat) (e : Engine) {dv : Nat} {t : TItem} {req : Request}
    (h : decodeRequest dv t = .ok req) (it : Item) (hit : it ∈ req.items) (cr : Crypto)
    (hev : e.version = req.version) (hs : StoreShape e.store)
    (hl : LengthsNonneg it.payload) (ho : OracleOk (C13.realCtx ps now) e { it with crypto := cr }) :
    NoInternal (processOperation (C13.realCtx ps now) e { it with crypto := cr }) := by
  obtain ⟨hver, hp⟩ := decode_items (realRules ps now) h it hit
  refine C13.no_internal_error ps now e _ hs (by rw [hev]; exact hver) ?_
  refine wellTyped_of_decoder ?_ hl ho
  show PayloadOkD _ e.version it.payload
  rw [hev]; exact hp

/-! ## The executable form used by the driver -/

theorem valOkDB_sound {c : Ctx} {name : String} {v : AVal} (h : valOkDB c name v = true) : ValOkD c name v := by
  simp only [valOkDB, Bool.and_eq_true] at h
  obtain ⟨h1, h3⟩ := h
  refine ⟨?_, ?_⟩
  · intro k hk; rw [hk] at h1; simpa using h1
  · intro hv r hr; subst hv; simp only [hr] at h3; exact h3

/-! ## Non-vacuity: concrete requests -/

def ascii (s : String) : Kmip.TTLV.Bytes := s.toList.map (fun c => UInt8.ofNat c.toNat)

/-- a Create request (KMIP 1.2, AES, 128 bits) as a tree -/
def createTree : TItem :=
  .struct T.requestMessage [
    .struct T.requestHeader [
      .struct T.protocolVersion [.prim T.protocolVersionMajor (.integer 1), .prim T.protocolVersionMinor (.integer 2)],
      .prim T.batchCount (.integer 1)],
    .struct T.batchItem [
      .prim T.operation_ (.enumeration 1),
      .struct T.requestPayload [
        .prim T.objectType (.enumeration 2),
        .struct T.templateAttribute [
          .struct T.attribute_ [.prim T.attributeName (.textString (ascii "Cryptographic Algorithm")),
                                .prim T.attributeValue (.enumeration 3)],
          .struct T.attribute_ [.prim T.attributeName (.textString (ascii "Cryptographic Length")),
                                .prim T.attributeValue (.integer 128)]]]]]

def isCreate128 : D Request → Bool
  | .ok r =>
    r.version == 12 && r.maxResponseSize.isNone &&
    (match r.items with
     | [⟨.create 2 (some t), none, .internal⟩] =>
       t == ⟨0, [⟨"Cryptographic Algorithm", none, .enum 3⟩, ⟨"Cryptographic Length", none, .int 128⟩]⟩
     | _ => false)
  | .error _ => false

/-- the tree decodes to the expected `Request` -/
example : isCreate128 (decodeRequest 12 createTree) = true := by decide +kernel

/-- the 240 bytes PyKMIP's own encoder writes for that request -/
def createFrame : Kmip.TTLV.Bytes := [
  0x42, 0x00, 0x78, 0x01, 0x00, 0x00, 0x00, 0xe8, 0x42, 0x00, 0x77, 0x01, 0x00, 0x00, 0x00, 0x38, 0x42, 0x00, 0x69, 0x01,
  0x00, 0x00, 0x00, 0x20, 0x42, 0x00, 0x6a, 0x02, 0x00, 0x00, 0x00, 0x04, 0x00, 0x00, 0x00, 0x01, 0x00, 0x00, 0x00, 0x00,
  0x42, 0x00, 0x6b, 0x02, 0x00, 0x00, 0x00, 0x04, 0x00, 0x00, 0x00, 0x02, 0x00, 0x00, 0x00, 0x00, 0x42, 0x00, 0x0d, 0x02,
  0x00, 0x00, 0x00, 0x04, 0x00, 0x00, 0x00, 0x01, 0x00, 0x00, 0x00, 0x00, 0x42, 0x00, 0x0f, 0x01, 0x00, 0x00, 0x00, 0xa0,
  0x42, 0x00, 0x5c, 0x05, 0x00, 0x00, 0x00, 0x04, 0x00, 0x00, 0x00, 0x01, 0x00, 0x00, 0x00, 0x00, 0x42, 0x00, 0x79, 0x01,
  0x00, 0x00, 0x00, 0x88, 0x42, 0x00, 0x57, 0x05, 0x00, 0x00, 0x00, 0x04, 0x00, 0x00, 0x00, 0x02, 0x00, 0x00, 0x00, 0x00,
  0x42, 0x00, 0x91, 0x01, 0x00, 0x00, 0x00, 0x70, 0x42, 0x00, 0x08, 0x01, 0x00, 0x00, 0x00, 0x30, 0x42, 0x00, 0x0a, 0x07,
  0x00, 0x00, 0x00, 0x17, 0x43, 0x72, 0x79, 0x70, 0x74, 0x6f, 0x67, 0x72, 0x61, 0x70, 0x68, 0x69, 0x63, 0x20, 0x41, 0x6c,
  0x67, 0x6f, 0x72, 0x69, 0x74, 0x68, 0x6d, 0x00, 0x42, 0x00, 0x0b, 0x05, 0x00, 0x00, 0x00, 0x04, 0x00, 0x00, 0x00, 0x03,
  0x00, 0x00, 0x00, 0x00, 0x42, 0x00, 0x08, 0x01, 0x00, 0x00, 0x00, 0x30, 0x42, 0x00, 0x0a, 0x07, 0x00, 0x00, 0x00, 0x14,
  0x43, 0x72, 0x79, 0x70, 0x74, 0x6f, 0x67, 0x72, 0x61, 0x70, 0x68, 0x69, 0x63, 0x20, 0x4c, 0x65, 0x6e, 0x67, 0x74, 0x68,
  0x00, 0x00, 0x00, 0x00, 0x42, 0x00, 0x0b, 0x02, 0x00, 0x00, 0x00, 0x04, 0x00, 0x00, 0x00, 0x80, 0x00, 0x00, 0x00, 0x00]

/-- … and so do the bytes (lenient byte reader + tree decoder) -/
example : isCreate128 (decodeFrame 12 createFrame) = true := by decide +kernel

/-- the remaining hypothesis `LengthsNonneg` holds of the payload that request decodes to (`isCreate128` above pins
the decoded payload to exactly this one) -/
example : LengthsNonneg (.create 2 (some ⟨0, [⟨"Cryptographic Algorithm", none, .enum 3⟩,
                                               ⟨"Cryptographic Length", none, .int 128⟩]⟩)) := by
  intro a ha
  simp only [List.mem_cons, List.not_mem_nil, or_false] at ha
  rcases ha with rfl | rfl <;> intro _ <;> simp [AVal.nonneg]

def errOf : D Request → Option DErr
  | .error e => some e
  | .ok _ => none

/-- the decoder is not trivially rejecting, nor trivially accepting: an attribute whose factory method raises
NotImplementedError makes the request undecodable … -/
example : errOf (decodeRequest 12 (.struct T.requestMessage [
    .struct T.requestHeader [
      .struct T.protocolVersion [.prim T.protocolVersionMajor (.integer 1), .prim T.protocolVersionMinor (.integer 2)],
      .prim T.batchCount (.integer 1)],
    .struct T.batchItem [
      .prim T.operation_ (.enumeration 8),
      .struct T.requestPayload [
        .struct T.attribute_ [.prim T.attributeName (.textString (ascii "Link")),
                              .prim T.attributeValue (.integer 1)]]]])) = some (.unsupportedAttribute "Link") := by
  decide +kernel

/-- … a value of the wrong type under an attribute name is refused (this is where `ValOk.kind` comes from) … -/
example : errOf (decodeRequest 12 (.struct T.requestMessage [
    .struct T.requestHeader [
      .struct T.protocolVersion [.prim T.protocolVersionMajor (.integer 1), .prim T.protocolVersionMinor (.integer 2)],
      .prim T.batchCount (.integer 1)],
    .struct T.batchItem [
      .prim T.operation_ (.enumeration 8),
      .struct T.requestPayload [
        .struct T.attribute_ [.prim T.attributeName (.textString (ascii "Cryptographic Length")),
                              .prim T.attributeValue (.textString (ascii "128"))]]]]))
      = some (.malformed "Cryptographic Length") := by
  decide +kernel

/-- … and an item under a protocol version that is no member of KMIPVersion is refused, while the same header with
an empty batch decodes (version 0 = unknown) -/
example : (match decodeRequest 12 (.struct T.requestMessage [
    .struct T.requestHeader [
      .struct T.protocolVersion [.prim T.protocolVersionMajor (.integer 3), .prim T.protocolVersionMinor (.integer 0)],
      .prim T.batchCount (.integer 0)]]) with
    | .ok r => r.version == 0 && r.items.isEmpty
    | .error _ => false) = true := by decide +kernel

end Kmip.C13Decode
