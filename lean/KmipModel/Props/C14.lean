/-
C14 — Locate returns exactly the permitted, matching objects, newest first;
offset / maximum items select a slice of that same list, so pages partition it.

`opLocate` (transcription of the filter loop) is refined to the declarative
pipeline  slice ∘ sortDesc ∘ filter(matches) ∘ filter(permitted).
-/
import KmipModel.Lemmas.Run
import KmipModel.Props.C07
namespace Kmip.C14
open Kmip

/-- the per-object verdict of the filter loop, when it is defined (no error) -/
def matchesB (c : Ctx) (attrs : List TAttr) (o : Obj) : Bool :=
  match matchesObj c o attrs with
  | .ok b => b
  | .error _ => false

theorem locateFilter_eq_filter (c : Ctx) (attrs : List TAttr) (l r : List Obj)
    (h : locateFilter c attrs l = .ok r) : r = l.filter (matchesB c attrs) := by
  induction l generalizing r with
  | nil => simp [locateFilter, pure, Except.pure] at h; subst h; rfl
  | cons o os ih =>
    unfold locateFilter at h
    inv h
    obtain ⟨keep, hk, rest, hrest, rfl⟩ := h
    have := ih rest hrest
    subst this
    simp only [List.filter_cons, matchesB, hk]

/-- **Locate = slice ∘ sort ∘ filter ∘ permitted.**  Whenever Locate answers, the
identifiers are exactly: the objects the requester may locate, restricted to those
matching every filter, ordered newest first (stable), then sliced by offset/maximum. -/
theorem locate_spec (c : Ctx) (e : Engine) (m off : Option Int) (as : List TAttr) (eff : Effect) (us : List String)
    (h : opLocate c e m off as = .ok (eff, .uids us)) :
    us = (slice (sortDesc ((listWithAccess c e Op.locate).filter
            (fun o => as.isEmpty || matchesB c as o))) off m).map (fun o => toString o.uid) := by
  unfold opLocate at h
  inv h
  obtain ⟨matched, hm, _, hd⟩ := h
  simp only [Data.uids.injEq] at hd
  subst hd
  unfold locateMatched at hm
  split at hm
  · rename_i hemp
    simp only [pure, Except.pure, Except.ok.injEq] at hm
    subst hm
    have hf : ∀ l : List Obj, l.filter (fun _ => true) = l := by
      intro l; induction l with
      | nil => rfl
      | cons x xs ih => simp [List.filter_cons, ih]
    simp [hemp, hf]
  · rename_i hemp
    have := locateFilter_eq_filter c as _ _ hm
    subst this
    simp [hemp]

/-! ### newest first -/

theorem insertDesc_sorted (o : Obj) (l : List Obj)
    (h : l.Pairwise (fun a b => b.initialDate ≤ a.initialDate)) :
    (insertDesc o l).Pairwise (fun a b => b.initialDate ≤ a.initialDate) := by
  induction l with
  | nil => simp [insertDesc]
  | cons x xs ih =>
    simp only [insertDesc]
    split
    · rename_i hle
      rw [List.pairwise_cons] at h ⊢
      refine ⟨?_, List.pairwise_cons.mpr h⟩
      intro b hb
      simp only [List.mem_cons] at hb
      rcases hb with rfl | hb
      · exact hle
      · exact Nat.le_trans (h.1 b hb) hle
    · rename_i hnle
      rw [List.pairwise_cons] at h ⊢
      refine ⟨?_, ih h.2⟩
      intro b hb
      rcases C07.insertDesc_mem o b xs hb with rfl | hb
      · omega
      · exact h.1 b hb

/-- the result list is ordered by initial date, newest first -/
theorem sortDesc_sorted (l : List Obj) : (sortDesc l).Pairwise (fun a b => b.initialDate ≤ a.initialDate) := by
  induction l with
  | nil => simp [sortDesc]
  | cons x xs ih => exact insertDesc_sorted x _ ih

theorem insertDesc_perm (o : Obj) (l : List Obj) : (insertDesc o l).Perm (o :: l) := by
  induction l with
  | nil => simp [insertDesc]
  | cons x xs ih =>
    simp only [insertDesc]
    split
    · exact List.Perm.refl _
    · exact (List.Perm.cons x ih).trans (List.Perm.swap o x xs)

/-- sorting neither drops nor duplicates anything -/
theorem sortDesc_perm (l : List Obj) : (sortDesc l).Perm l := by
  induction l with
  | nil => simp [sortDesc]
  | cons x xs ih => exact (insertDesc_perm x _).trans (List.Perm.cons x ih)

/-- ties keep creation order (the sort is stable): among equal dates the relative
order of the input is preserved -/
theorem insertDesc_stable (o : Obj) (l : List Obj) (d : Nat) :
    (insertDesc o l).filter (fun x => x.initialDate == d) = (o :: l).filter (fun x => x.initialDate == d) ∨
    ¬ (o.initialDate = d) := by
  by_cases hd : o.initialDate = d
  · left
    induction l with
    | nil => simp [insertDesc]
    | cons x xs ih =>
      simp only [insertDesc]
      split
      · rfl
      · rename_i hn
        have hx : (x.initialDate == d) = false := by
          simp only [beq_eq_false_iff_ne, ne_eq]; omega
        simp only [List.filter_cons, hx, Bool.false_eq_true, if_false] at ih ⊢
        simpa [hd] using ih
  · exact Or.inr hd

/-! ### offset / maximum: pages partition the list -/

theorem pyIdx_nat (n k : Nat) : pyIdx n (k : Int) = min k n := by
  unfold pyIdx
  have : ¬ ((k : Int) < 0) := by omega
  simp [this]

theorem take_min_length {α} (l : List α) (k : Nat) : l.take (min k l.length) = l.take k := by
  by_cases h : k ≤ l.length
  · rw [Nat.min_eq_left h]
  · rw [Nat.min_eq_right (by omega), List.take_of_length_le (Nat.le_refl _), List.take_of_length_le (by omega)]

theorem drop_min_length {α} (l : List α) (k : Nat) : l.drop (min k l.length) = l.drop k := by
  by_cases h : k ≤ l.length
  · rw [Nat.min_eq_left h]
  · rw [Nat.min_eq_right (by omega), List.drop_of_length_le (Nat.le_refl _), List.drop_of_length_le (by omega)]

theorem take_drop_eq {α} (l : List α) (off n : Nat) : (l.take (off + n)).drop off = (l.drop off).take n := by
  induction l generalizing off with
  | nil => simp
  | cons x xs ih =>
    cases off with
    | zero => simp
    | succ k =>
      rw [show k + 1 + n = (k + n) + 1 by omega]
      simp only [List.take_succ_cons, List.drop_succ_cons]
      exact ih k

theorem slice_nonneg {α} (l : List α) (off n : Nat) :
    slice l (some (off : Int)) (some (n : Int)) = (l.drop off).take n := by
  simp only [slice, pySlice]
  rw [show ((off : Int) + (n : Int)) = ((off + n : Nat) : Int) by simp, pyIdx_nat, pyIdx_nat]
  rw [take_min_length]
  rw [← take_drop_eq]
  by_cases h : off ≤ l.length
  · rw [Nat.min_eq_left h]
  · rw [Nat.min_eq_right (by omega)]
    rw [List.drop_of_length_le (by simp; omega), List.drop_of_length_le (by simp; omega)]

/-- consecutive pages concatenate to the bigger page: no element lost, none repeated -/
theorem locate_pages_partition {α} (l : List α) (off n m : Nat) :
    slice l (some (off : Int)) (some (n : Int)) ++ slice l (some ((off + n : Nat) : Int)) (some (m : Int))
      = slice l (some (off : Int)) (some ((n + m : Nat) : Int)) := by
  rw [slice_nonneg, slice_nonneg, slice_nonneg]
  rw [← List.drop_drop]
  generalize l.drop off = r
  induction r generalizing n with
  | nil => simp
  | cons x xs ih =>
    cases n with
    | zero => simp
    | succ k =>
      simp only [List.take_succ_cons, List.drop_succ_cons, List.cons_append]
      rw [show k + 1 + m = (k + m) + 1 by omega, List.take_succ_cons, ih]

theorem slice_all {α} (l : List α) : slice l none none = l := by simp [slice]
theorem slice_offset_only {α} (l : List α) (off : Nat) : slice l (some (off : Int)) none = l.drop off := by
  simp only [slice, pyIdx_nat]
  exact drop_min_length l off
theorem slice_max_only {α} (l : List α) (n : Nat) : slice l none (some (n : Int)) = l.take n := by
  simp only [slice, pyIdx_nat]
  exact take_min_length l n

/-! ### what `matches` means, filter by filter (when the filter is applicable and evaluable) -/

/-- a conjunction of filters matches only if the first filter alone does not reject -/
theorem first_filter_must_pass (c : Ctx) (o : Obj) (a : TAttr) (as : List TAttr)
    (h : matchesObj c o (a :: as) = .ok true) : filterOne c o {} a ≠ .ok .fail := by
  intro hf
  unfold matchesObj at h
  simp only [filterObj, bind, Except.bind, hf] at h
  simp [pure, Except.pure] at h

/-- an object to whose type a filter attribute is not applicable never matches -/
theorem not_applicable_never_matches (c : Ctx) (o : Obj) (a : TAttr) (as : List TAttr) (r : AttrRule)
    (hr : c.rule? a.name = some r) (happ : r.appliesTo.contains o.otype = false) :
    matchesObj c o (a :: as) = .ok false := by
  have h1 : filterOne c o {} a = .ok .fail := by
    have hn : ¬ (o.otype ∈ r.appliesTo) := by
      intro hm; simp at happ; exact happ hm
    unfold filterOne
    simp [Ctx.isApplicable, hr, hn, bind, Except.bind, pure, Except.pure]
  unfold matchesObj
  simp only [filterObj, bind, Except.bind, h1]
  rfl

/-- one Initial Date = exact match; two = inclusive range (for objects with a non-zero date) -/
theorem date_exact (v : Nat) (d : Int) : validDate v (some d) none = (d == (v : Int)) := rfl
theorem date_range (v : Nat) (a b : Int) : validDate v (some a) (some b) = (!((v : Int) < a) && !((v : Int) > b)) := rfl

theorem three_dates_rejected (t : DateTrack) (a b : Int) (v : Int) (h1 : t.start = some a) (h2 : t.stop = some b) :
    trackDate t v = .error (.kmip Rsn.invalidField "Too many Initial Date attributes provided.") := by
  simp [trackDate, h1, h2, kerr]

/-- two dates are ordered into (start ≤ end) whatever order the client sent them in -/
theorem two_dates_ordered (a b : Int) :
    ∃ t, (do let t1 ← trackDate {} a; trackDate t1 b) = Except.ok t ∧
      t.start = some (min a b) ∧ t.stop = some (max a b) := by
  simp only [trackDate, bind, Except.bind, pure, Except.pure]
  by_cases h : b > a
  · refine ⟨{ value := none, start := some a, stop := some b }, by simp [h], ?_, ?_⟩ <;> simp <;> omega
  · refine ⟨{ value := none, start := some b, stop := some a }, by simp [h], ?_, ?_⟩ <;> simp <;> omega

/-! Non-vacuity -/
def o1 : Obj := { (newObj 2 "00") with uid := 1, initialDate := 10 }
def o2 : Obj := { (newObj 2 "00") with uid := 2, initialDate := 10 }
def o3 : Obj := { (newObj 2 "00") with uid := 3, initialDate := 12 }
example : (sortDesc [o1, o2, o3]).map (·.uid) = [3, 1, 2] := by decide
example : slice [1, 2, 3, 4, 5] (some 1) (some 2) ++ slice [1, 2, 3, 4, 5] (some 3) (some 2) = [2, 3, 4, 5] := by decide

end Kmip.C14
