/-
C20 (engine level, second sentence) / C03 ("discloses no value") — NON-INTERFERENCE of stored key
material in the engine model.

What a client gets back does not depend on the stored values (key material, secret bytes, certificate
bytes), except through a successful, granted, unwrapped Get of that very object:

* single item, equational form (`scrambled_store_same_outcome`): for ANY function `g` on values that keeps
  empty values empty and non-empty values non-empty, an item processed on the store scrambled by `g` fails iff
  it fails on the original store, with the same reason and message; when it succeeds, the answer is the same
  except that an unwrapped Get answers `g` of the value;
* two arbitrary engine states that differ only in stored values (`SameButValues`, the most general relation):
  whole requests and whole histories (requests + restarts) give the same rejections, the same failing items with
  the same reason and message, the same answers up to the value of a Get, and end in states that again differ only
  in stored values.

Why a relation and not an equation for batches: an inserting item takes its value from the request / the backend
answer, which is the same in both runs, so `batch (e.mapV g) = (batch e).mapV g` is FALSE
(`mapV_equation_false_for_batches`).

The emptiness condition is necessary: MAC refuses a key whose value is empty (`emptiness_is_observable`).

Model caveat (trusted, stated in the MANIFEST text): the cryptography backend is scripted per item in the
model (`Item.crypto`); in the real server the backend's answer (ciphertext, MAC, signature, wrapped key,
derived key) is of course computed from the key material.  These theorems cover everything the ENGINE itself
does with a stored value.
-/
import KmipModel.Lemmas.ValueOrigin
import KmipModel.Props.C03Engine
namespace Kmip.C20Engine
open Kmip Kmip.C03

/-! ### one item -/

/-- **An item on a scrambled store.** `g` is any function on values with `g s = "" ↔ s = ""`.  Processing an
item on the store whose every value was replaced by `g` of it gives: the same error (reason AND message) if
the item fails on the original store — and it fails on one iff it fails on the other —; otherwise the same
effect and the same answer, where the value field of an unwrapped Get answer is `g` of the original one
(`outMapV`, `Data.mapV`, `Effect.mapV`: nothing else changes). -/
theorem scrambled_store_same_outcome (g : String → String) (hg : ∀ s, g s = "" ↔ s = "") (c : Ctx) (e : Engine)
    (it : Item) :
    processOperation c (e.mapV g) it = (processOperation c e it).map (outMapV g) :=
  processOperation_mapV g c e hg it

/-- An item fails on the scrambled store iff it fails on the original one, with exactly the same error. -/
theorem scrambled_store_same_error (g : String → String) (hg : ∀ s, g s = "" ↔ s = "") (c : Ctx) (e : Engine)
    (it : Item) (err : Err) :
    processOperation c (e.mapV g) it = .error err ↔ processOperation c e it = .error err := by
  rw [scrambled_store_same_outcome g hg]
  cases processOperation c e it <;> simp [Except.map]

/-- **One item on two states that differ only in stored values**: it fails in both with the same reason and
message, or it succeeds in both with answers that are equal except for the value of an unwrapped Get
(`DataSame`). -/
theorem item_outcome_independent_of_key_material (c : Ctx) {e e' : Engine} (h : SameButValues e e') (it : Item) :
    (∀ err, processOperation c e it = .error err ↔ processOperation c e' it = .error err) ∧
    (∀ eff d, processOperation c e it = .ok (eff, d) →
      ∃ eff' d', processOperation c e' it = .ok (eff', d') ∧ DataSame d d') := by
  rcases outSame_cases (processOperation_same c h it) with ⟨err, h1, h2⟩ | ⟨eff, d, eff', d', h1, h2, _, hd⟩
  · rw [h1, h2]
    exact ⟨fun _ => Iff.rfl, fun _ _ hc => (by cases hc)⟩
  · rw [h1, h2]
    refine ⟨fun err => ⟨fun hc => (by cases hc), fun hc => (by cases hc)⟩, fun _ _ hc => ?_⟩
    simp only [Except.ok.injEq, Prod.mk.injEq] at hc
    obtain ⟨_, rfl⟩ := hc
    exact ⟨eff', d', rfl, hd⟩

/-! ### whole requests -/

/-- **Error messages never depend on key material.**  For every context, identity, request and two engine
states that differ only in stored values (same emptiness): the request is rejected in both with the same reason
and message, or it is processed in both; then the two result lists have the same length and every item that
fails in one run fails in the other with exactly the same error (reason and message) — in particular the set of
failing items is the same. -/
theorem error_messages_independent_of_key_material (c : Ctx) {e e' : Engine} (h : SameButValues e e')
    (id : Identity) (r : Request) :
    (∀ rsn m, (processRequest c e id r).2 = .rejected rsn m ↔ (processRequest c e' id r).2 = .rejected rsn m) ∧
    (∀ rs, (processRequest c e id r).2 = .results rs →
      ∃ rs', (processRequest c e' id r).2 = .results rs' ∧ rs.length = rs'.length ∧
        ∀ (i : Nat) (err : Err), (rs[i]?.map (·.result) = some (.error err) ↔ rs'[i]?.map (·.result) = some (.error err))) := by
  have h2 := (processRequest_same c h id r).2
  generalize (processRequest c e id r).2 = A at h2 ⊢
  generalize (processRequest c e' id r).2 = B at h2 ⊢
  cases h2 with
  | rejected rsn m => exact ⟨fun _ _ => Iff.rfl, fun _ hc => (by cases hc)⟩
  | results rs rs' hrs =>
    refine ⟨fun _ _ => ⟨fun hc => (by cases hc), fun hc => (by cases hc)⟩, fun rs0 hc => ?_⟩
    cases hc
    refine ⟨rs', rfl, hrs.length_eq, fun i err => ?_⟩
    rcases hrs.get? i with ⟨h1, h2⟩ | ⟨a, b, h1, h2, _, _, hab⟩
    · simp [h1, h2]
    · simp only [h1, h2, Option.map_some, Option.some.injEq]
      rcases hab with ⟨err', ha, hb⟩ | ⟨d, d', ha, hb, _⟩
      · rw [ha, hb]
      · rw [ha, hb]; exact ⟨fun hc => (by cases hc), fun hc => (by cases hc)⟩

/-- **Answers disclose only values that were got.**  Same setting: every successful item of one run is
successful in the other, with the SAME answer — unless the item is a Get (operation 10) answering an unwrapped
managed object, in which case every field of the answer except the value is the same too. -/
theorem answers_disclose_only_got_values (c : Ctx) {e e' : Engine} (h : SameButValues e e')
    (id : Identity) (r : Request) (rs rs' : List ItemResult)
    (hr : (processRequest c e id r).2 = .results rs) (hr' : (processRequest c e' id r).2 = .results rs') :
    ∀ (i : Nat) (x : ItemResult) (d : Data), rs[i]? = some x → x.result = .ok d →
      ∃ (x' : ItemResult) (d' : Data), rs'[i]? = some x' ∧ x'.result = .ok d' ∧ x'.op = x.op ∧ x'.batchId = x.batchId ∧
        (d' = d ∨
         (x.op = Op.get ∧ ∃ ot u v v' a l f s, d = .object ot u v a l f s false ∧
            d' = .object ot u v' a l f s false ∧ (v = "" ↔ v' = ""))) := by
  intro i x d hx hd
  have h2 := (processRequest_same c h id r).2
  rw [hr, hr'] at h2
  cases h2 with
  | results _ _ hrs =>
    rcases hrs.get? i with ⟨h1, _⟩ | ⟨a, b, h1, h2, hop, hbid, hab⟩
    · rw [hx] at h1; cases h1
    · rw [hx] at h1; cases h1
      rcases hab with ⟨err', ha, _⟩ | ⟨d0, d', ha, hb, hdd⟩
      · rw [hd] at ha; cases ha
      · rw [hd] at ha; cases ha
        refine ⟨b, d', h2, hb, hop.symm, hbid.symm, ?_⟩
        cases hdd with
        | same => exact Or.inl rfl
        | got ot u v v' a l f s hv =>
          refine Or.inr ⟨?_, ot, u, v, v', a, l, f, s, rfl, rfl, hv⟩
          -- the item is a Get: only Get answers a managed object
          rcases processRequest_cases c e id r with ⟨_, rsn, m, hrej⟩ | hb'
          · rw [hrej] at hr; cases hr
          · rw [hb'] at hr
            simp only [ReqResult.results.injEq] at hr
            exact batchSpec_object_op c r.stop _ r.items x (hr ▸ List.mem_of_getElem? hx) _ hd rfl

/-- The final states of the two runs differ only in stored values again — so the statements above hold for
every later request as well (see `history_independent_of_key_material`). -/
theorem request_preserves_sameButValues (c : Ctx) {e e' : Engine} (h : SameButValues e e') (id : Identity)
    (r : Request) : SameButValues (processRequest c e id r).1 (processRequest c e' id r).1 :=
  (processRequest_same c h id r).1

/-- **Whole histories** (any sequence of requests, each with its own context and identity, and server
restarts): the answers given along the way are pairwise `ReqSame` — same rejections, same errors, same answers up
to the value of a Get — and the final states differ only in stored values. -/
theorem history_independent_of_key_material {e e' : Engine} (h : SameButValues e e') (steps : List Step) :
    SameButValues (run e steps) (run e' steps) ∧ Forall2 ReqSame (answers e steps) (answers e' steps) :=
  run_same h steps

/-! ### what a Get answers -/

/-- Only a Get answers a managed object at all … -/
theorem only_get_answers_objects {c : Ctx} {e : Engine} {it : Item} {eff : Effect} {ot : Nat} {u v : String}
    {a l f s : Option Nat} {w : Bool} (h : processOperation c e it = .ok (eff, .object ot u v a l f s w)) :
    ∃ uid fmt cp wrap, it.payload = .get uid fmt cp wrap :=
  object_only_from_get h rfl

/-- … and the value in an unwrapped Get answer is the value of the very object the Get addresses, which the
requester's policy grants him to Get (`C03.success_requires_grant`). -/
theorem got_value_is_of_the_granted_object {c : Ctx} {e : Engine} {it : Item} {eff : Effect} {ot : Nat}
    {u v : String} {a l f s : Option Nat} (h : processOperation c e it = .ok (eff, .object ot u v a l f s false)) :
    ∃ o, e.store.lookup (C03.target e it.payload) = some o ∧ o.value = v ∧
      Grant c.policies o.policy e.identity o.owner o.otype Op.get := by
  obtain ⟨uid, fmt, cp, wrap, hpay, o, ho, hv⟩ := processOperation_get_value h
  have hg := getWithAccess_ok ho
  refine ⟨o, ?_, hv, (allowed_iff_grant ..).mp hg.2.2⟩
  rw [hpay]
  exact hg.1

/-! ### C03: a denied request discloses nothing -/

/-- **A denied request discloses no value.**  If the policy does not grant the requester the operation on the
object the item addresses, the item fails, and it fails with exactly the same error on every state that differs
from this one only in stored values — whatever the value of the object (and of every other object) is. -/
theorem denied_request_discloses_nothing {c : Ctx} {e e' : Engine} (h : SameButValues e e') {it : Item} {op : Nat}
    {o : Obj} (hop : C03.policyOp it.payload = some op)
    (ho : e.store.lookup (C03.target e it.payload) = some o)
    (hden : ¬ Grant c.policies o.policy e.identity o.owner o.otype op) :
    ∃ err, processOperation c e it = .error err ∧ processOperation c e' it = .error err := by
  obtain ⟨err, herr⟩ := C03.denied_no_effect hop ho hden
  exact ⟨err, herr, ((item_outcome_independent_of_key_material c h it).1 err).mp herr⟩

/-- replace the value of the object with identifier `u` -/
def setValue (e : Engine) (u : Nat) (v : String) : Engine :=
  { e with store := e.store.update u (fun o => { o with value := v }) }

theorem sameButValues_setValue (e : Engine) (u : Nat) (v : String)
    (hv : ∀ o ∈ e.store.objs, o.uid = u → (o.value = "" ↔ v = "")) : SameButValues e (setValue e u v) := by
  unfold SameButValues setValue Engine.mapV Store.mapV Store.update
  simp only [List.map_map]
  congr 2
  apply List.map_congr_left
  intro o ho
  simp only [Function.comp]
  split
  · rename_i hu
    simp only [beq_iff_eq] at hu
    simp only [Obj.mapV, (blank_eq_iff _ _).mpr (hv o ho hu)]
  · rfl

/-- The same, said with an explicit replacement: whatever non-empty value `v` is put in place of the (non-empty)
value of the addressed object, the denied item's answer is the same error. -/
theorem denied_answer_same_whatever_the_value {c : Ctx} {e : Engine} {it : Item} {op : Nat} {o : Obj}
    (hi : e.store.Inv) (hop : C03.policyOp it.payload = some op)
    (ho : e.store.lookup (C03.target e it.payload) = some o)
    (hden : ¬ Grant c.policies o.policy e.identity o.owner o.otype op)
    (v : String) (hv : o.value = "" ↔ v = "") :
    processOperation c (setValue e o.uid v) it = processOperation c e it ∧
    ∃ err, processOperation c e it = .error err := by
  have hs : SameButValues e (setValue e o.uid v) := by
    apply sameButValues_setValue
    intro o' ho' hu
    have : o' = o := hi.unique ho' (lookup_mem ho).1 hu
    rw [this]; exact hv
  obtain ⟨err, h1, h2⟩ := denied_request_discloses_nothing hs hop ho hden
  exact ⟨by rw [h1, h2], err, h1⟩

/-! ### stored values are never copied -/

/-- **Stored values are never copied.**  After any request, every stored object either existed before (same
identifier) and has the value it had before, or has a fresh identifier and a value supplied by a creating item
of this request (`Item.Supplies`: the registered secret, or the token(s) the backend answered for that item) — it
is never the value of another stored object read by the engine. -/
theorem stored_values_never_copied (c : Ctx) (hr : RulesProtect c) (e : Engine) (id : Identity) (r : Request)
    (hi : e.store.Inv) (hs : e.store.StatesOk) :
    ∀ x ∈ (processRequest c e id r).1.store.objs,
      (∃ y ∈ e.store.objs, y.uid = x.uid ∧ x.value = y.value) ∨
      (e.store.nextUid ≤ x.uid ∧ ∃ it ∈ r.items, it.Supplies x.value) :=
  processRequest_values c hr e id r hi hs

/-- … and over whole histories. -/
theorem stored_values_never_copied_history (e : Engine) (steps : List Step) (hok : StepsOk steps)
    (hi : e.store.Inv) (hs : e.store.StatesOk) :
    ∀ x ∈ (run e steps).store.objs,
      (∃ y ∈ e.store.objs, y.uid = x.uid ∧ x.value = y.value) ∨
      (e.store.nextUid ≤ x.uid ∧ ∃ s ∈ steps, s.Supplies x.value) :=
  run_values e steps hok hi hs

/-! ### Non-vacuity: a concrete engine holding a key, a `g` that reverses every value -/

def demoPolicies : Policies :=
  [("default", ⟨some [(OT.symmetricKey, [(Op.get, .allowOwner)]), (OT.secretData, [(Op.get, .allowAll)])], none⟩)]
def demoCtx : Ctx := { rules := [], policies := demoPolicies, now := 5, supportedVersions := [12] }
def demoKey : Obj :=
  { (newObj OT.symmetricKey "00112233") with
    uid := 1, owner := some "alice", policy := "default", alg := some 3, len := some 32,
    format := some 1, state := some St.active, mask := some Mask.macGenerate }
def demoEngine (user : String) : Engine :=
  { Engine.init with store := { objs := [demoKey], nextUid := 2 }, identity := ⟨some user, none⟩ }

/-- reverse the hex string -/
def rev (s : String) : String := String.ofList s.toList.reverse
theorem rev_empty (s : String) : rev s = "" ↔ s = "" := by simp [rev]

def getItem (u : String) : Item := ⟨.get (some u) none false none, none, .internal⟩
def macItem : Item := ⟨.mac (some "1") none true, none, .ok "aa"⟩

/-- the hypotheses of the theorems are satisfiable: the demo store is well formed, the scrambled state differs
only in values, and the two states are different -/
example : (demoEngine "alice").store.Inv ∧ (demoEngine "alice").store.StatesOk ∧
    SameButValues ((demoEngine "alice").mapV rev) (demoEngine "alice") ∧
    (demoEngine "alice").mapV rev ≠ demoEngine "alice" := by
  refine ⟨⟨by simp [demoEngine], by simp [demoEngine, demoKey]⟩, ?_, sameButValues_mapV rev rev_empty _, by decide⟩
  intro o ho
  simp only [demoEngine, List.mem_singleton] at ho
  subst ho
  simp [StateOk, demoKey, St.active]

/-- a succeeding item: the owner's Get answers the value — reversed on the reversed store, everything else equal -/
example : processOperation demoCtx (demoEngine "alice") (getItem "1") =
      .ok (.none, .object 2 "1" "00112233" (some 3) (some 32) (some 1) none false) ∧
    processOperation demoCtx ((demoEngine "alice").mapV rev) (getItem "1") =
      .ok (.none, .object 2 "1" "33221100" (some 3) (some 32) (some 1) none false) := ⟨by rfl, by rfl⟩

/-- a failing item (unknown identifier): the same error on both stores -/
example : processOperation demoCtx (demoEngine "alice") (getItem "7") =
      .error (.kmip Rsn.itemNotFound "Could not locate object: 7") ∧
    processOperation demoCtx ((demoEngine "alice").mapV rev) (getItem "7") =
      .error (.kmip Rsn.itemNotFound "Could not locate object: 7") := ⟨by rfl, by rfl⟩

/-- a denied item (bob is not the owner): the same error on both stores, and it is the not-found text -/
example : processOperation demoCtx (demoEngine "bob") (getItem "1") =
      .error (.kmip Rsn.permissionDenied "Could not locate object: 1") ∧
    processOperation demoCtx ((demoEngine "bob").mapV rev) (getItem "1") =
      .error (.kmip Rsn.permissionDenied "Could not locate object: 1") := ⟨by rfl, by rfl⟩

/-- the hypotheses of `denied_request_discloses_nothing` hold for bob's Get -/
example : C03.policyOp (getItem "1").payload = some Op.get ∧
    (demoEngine "bob").store.lookup (C03.target (demoEngine "bob") (getItem "1").payload) = some demoKey ∧
    ¬ Grant demoCtx.policies demoKey.policy (demoEngine "bob").identity demoKey.owner demoKey.otype Op.get := by
  refine ⟨rfl, by rfl, ?_⟩
  rw [← allowed_iff_grant]
  decide

/-- **The emptiness condition cannot be dropped**: MAC refuses a key whose value is empty, so a `g` that
empties values changes the outcome (here: from success to Permission Denied). -/
theorem emptiness_is_observable :
    processOperation demoCtx ((demoEngine "alice").mapV (fun _ => "")) macItem ≠
      (processOperation demoCtx (demoEngine "alice") macItem).map (outMapV (fun _ => "")) := by
  have h1 : processOperation demoCtx ((demoEngine "alice").mapV (fun _ => "")) macItem =
      .error (.kmip Rsn.permissionDenied "A secret key value must be specified for the MAC operation") := by rfl
  have h2 : processOperation demoCtx (demoEngine "alice") macItem = .ok (.none, .crypto "1" (.ok "aa")) := by rfl
  rw [h1, h2]
  intro h
  cases h

def regItem : Item :=
  ⟨.register OT.secretData none (some ⟨OT.secretData, "abcd", none, none, none, some 1⟩), some "a", .internal⟩
def getPlaceholder : Item := ⟨.get none none false none, some "b", .internal⟩

/-- **Why batches need a relation**: the equation "batch on the scrambled store = scrambling of the batch on the
original store" is false — an object registered by the batch carries the request's value in both runs, and the
following Get (ID placeholder) answers it unscrambled. -/
theorem mapV_equation_false_for_batches :
    ((batchSpec demoCtx true ((demoEngine "alice").mapV rev) [regItem, getPlaceholder]).2.map (·.result)) ≠
    ((batchSpec demoCtx true (demoEngine "alice") [regItem, getPlaceholder]).2.map
      (fun r => r.result.map (Data.mapV rev))) := by
  have h1 : (batchSpec demoCtx true ((demoEngine "alice").mapV rev) [regItem, getPlaceholder]).2.map (·.result) =
      [.ok (.uid "2"), .ok (.object 7 "2" "abcd" none none (some 2) (some 1) false)] := by rfl
  have h2 : (batchSpec demoCtx true (demoEngine "alice") [regItem, getPlaceholder]).2.map
      (fun r => r.result.map (Data.mapV rev)) =
      [.ok (.uid "2"), .ok (.object 7 "2" "dcba" none none (some 2) (some 1) false)] := by rfl
  rw [h1, h2]
  intro h
  simp only [List.cons.injEq, Except.ok.injEq, Data.object.injEq] at h
  exact absurd h.2.1.2.2.1 (by decide)

end Kmip.C20Engine
