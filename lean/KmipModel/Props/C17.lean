/-
C17 — No request is evaluated before the client's identity is established.

Model: KmipModel/Session.lean (M7), `establish` (certificate checks + `authenticate`)
and `handleMessage`.  The remote SLUGS services are an oracle inside `AuthCfg`
(`Slugs`: url ↦ user ↦ HTTP reply), the decoder / engine / encoder are parameters.

`Established` below is the property's sentence written as a Prop, independently of
the functions of the model; `establish_ok_iff` says the session establishes exactly
that.  `engine_called_iff_established` and `auth_failure_response` tie it to what
reaches `engine.process_request` and to the answer the client gets.
-/
import KmipModel.Lemmas.Session
import KmipModel.Props.C12
namespace Kmip.C17
open Kmip Kmip.Session

variable {Q R σ : Type}

/-- The property's condition: a certificate is present; it carries the client-authentication
extended key usage when that check is enabled; it yields exactly one common name `u`, the user;
and either no authentication plug-in is enabled (supported name and `enabled = True`) and there
is no group information, or the first enabled plug-in — in configuration order — whose SLUGS
service vouches for `u` reports the group list. -/
def Established (cfg : AuthCfg) (peer : Option Cert) (id : Identity) : Prop :=
  ∃ cert, peer = some cert ∧
    (cfg.tlsClientAuth = true → ∃ ek, cert.eku = some ek ∧ Eku.clientAuth ∈ ek) ∧
    ∃ u, cert.commonNames = [u] ∧ id.user = some u ∧
      (((∀ p ∈ cfg.plugins, p.active = false) ∧ id.groups = none) ∨
       (∃ pre p post, cfg.plugins = pre ++ p :: post ∧ p.active = true ∧ Vouches cfg.slugs p u id.groups ∧
          ∀ q ∈ pre, q.active = true → ∀ g, ¬ Vouches cfg.slugs q u g))

theorem slugs_none_iff (sl : Slugs) (q : Plugin) (cert : Cert) (u : String) (hcn : cert.commonNames = [u]) :
    slugsAuthenticate sl q.url cert = none ↔ ∀ g, ¬ Vouches sl q u g := by
  constructor
  · intro h g hv
    have := (slugsAuthenticate_some sl q cert ⟨some u, g⟩).mpr ⟨u, g, hcn, rfl, hv⟩
    rw [h] at this; cases this
  · intro h
    cases hs : slugsAuthenticate sl q.url cert with
    | none => rfl
    | some id =>
      obtain ⟨u', g, hcn', rfl, hv⟩ := (slugsAuthenticate_some sl q cert id).mp hs
      rw [hcn] at hcn'; cases hcn'
      exact absurd hv (h g)

theorem authenticate_some_iff (cfg : AuthCfg) (cert : Cert) (id : Identity) :
    authenticate cfg cert = some id ↔
    ∃ u, cert.commonNames = [u] ∧ id.user = some u ∧
      (((∀ p ∈ cfg.plugins, p.active = false) ∧ id.groups = none) ∨
       (∃ pre p post, cfg.plugins = pre ++ p :: post ∧ p.active = true ∧ Vouches cfg.slugs p u id.groups ∧
          ∀ q ∈ pre, q.active = true → ∀ g, ¬ Vouches cfg.slugs q u g)) := by
  unfold authenticate
  constructor
  · intro h
    split at h
    · rename_i id' b hl
      cases h
      obtain ⟨_, pre, p, post, hps, hpa, hp, hpre⟩ := (authLoop_some _ _ _ _ _ _).mp hl
      obtain ⟨u, g, hcn, rfl, hv⟩ := (slugsAuthenticate_some _ p cert _).mp hp
      refine ⟨u, hcn, rfl, Or.inr ⟨pre, p, post, hps, hpa, hv, ?_⟩⟩
      intro q hq hqa
      exact (slugs_none_iff _ q cert u hcn).mp (hpre q hq hqa)
    · cases h
    · rename_i hl
      obtain ⟨_, hb⟩ := (authLoop_none _ _ _ _ _).mp hl
      split at h
      · rename_i u hci
        cases h
        refine ⟨u, (clientIdentity_some _ _).mp hci, rfl, Or.inl ⟨?_, rfl⟩⟩
        intro p hp
        cases hpa : p.active with
        | false => rfl
        | true =>
          have : cfg.plugins.any (·.active) = true := List.any_eq_true.mpr ⟨p, hp, hpa⟩
          simp [this] at hb
      · cases h
  · rintro ⟨u, hcn, hu, hor⟩
    rcases hor with ⟨hna, hg⟩ | ⟨pre, p, post, hps, hpa, hv, hpre⟩
    · have hl : authLoop cfg.slugs cert cfg.plugins false = (none, false) := by
        rw [authLoop_none]
        refine ⟨fun q hq hqa => ?_, ?_⟩
        · rw [hna q hq] at hqa; cases hqa
        · cases hany : cfg.plugins.any (·.active) with
          | false => rfl
          | true =>
            obtain ⟨p, hp, hpa⟩ := List.any_eq_true.mp hany
            rw [hna p hp] at hpa; cases hpa
      rw [hl]
      simp only [(clientIdentity_some _ _).mpr hcn]
      cases id; simp_all
    · have hl : authLoop cfg.slugs cert cfg.plugins false = (some id, true) := by
        rw [authLoop_some]
        refine ⟨rfl, pre, p, post, hps, hpa, ?_, ?_⟩
        · rw [slugsAuthenticate_some]
          exact ⟨u, id.groups, hcn, by cases id; simp_all, hv⟩
        · intro q hq hqa
          exact (slugs_none_iff _ q cert u hcn).mpr (hpre q hq hqa)
      rw [hl]

/-- **Exact characterisation of success**, with the identity returned. -/
theorem establish_ok_iff (cfg : AuthCfg) (peer : Option Cert) (id : Identity) :
    establish cfg peer = .ok id ↔ Established cfg peer id := by
  unfold establish Established
  constructor
  · intro h
    split at h
    · cases h
    · rename_i cert hc
      obtain ⟨hp, hek⟩ := (certStage_some _ _ _).mp hc
      split at h
      · cases h
      · rename_i id' ha
        cases h
        exact ⟨cert, hp, hek, (authenticate_some_iff cfg cert id).mp ha⟩
  · rintro ⟨cert, hp, hek, hrest⟩
    have hc : certStage cfg.tlsClientAuth peer = some cert := (certStage_some _ _ _).mpr ⟨hp, hek⟩
    have ha := (authenticate_some_iff cfg cert id).mpr hrest
    simp only [hc, ha]

/-- the established identity is unique (the decision is a function of certificate, configuration
and the answers of the SLUGS services) -/
theorem established_unique (cfg : AuthCfg) (peer : Option Cert) (id id' : Identity)
    (h : Established cfg peer id) (h' : Established cfg peer id') : id = id' := by
  rw [← establish_ok_iff] at h h'
  rw [h] at h'; cases h'; rfl

/-- every part of the condition is needed: what a failure means -/
theorem establish_error_iff (cfg : AuthCfg) (peer : Option Cert) :
    (∃ e, establish cfg peer = .error e) ↔ ∀ id, ¬ Established cfg peer id := by
  constructor
  · rintro ⟨e, he⟩ id hid
    rw [← establish_ok_iff, he] at hid; cases hid
  · intro h
    cases he : establish cfg peer with
    | error e => exact ⟨e, rfl⟩
    | ok id => exact absurd ((establish_ok_iff _ _ _).mp he) (h id)

/-- which of the two stages refused -/
theorem establish_certificate_iff (cfg : AuthCfg) (peer : Option Cert) :
    establish cfg peer = .error .certificate ↔ certStage cfg.tlsClientAuth peer = none := by
  unfold establish
  cases certStage cfg.tlsClientAuth peer with
  | none => simp
  | some cert => simp only; cases authenticate cfg cert <;> simp

/-! ## what reaches the engine -/

/-- **The engine is called exactly when the identity is established, and with that identity**
(and with the decoded request). -/
theorem engine_called_iff_established (env : Env Q R σ) (cfg : SessionCfg) (peer : Option Cert) (s : σ)
    (data : Bytes) (req : Q) (id : Identity) :
    (handleMessage env cfg peer s data).1.engineCall = some (req, id) ↔
    env.parse data = some req ∧ establish cfg.auth peer = .ok id := by
  unfold handleMessage
  rw [emit_engineCall]
  unfold evaluate establish
  cases certStage cfg.auth.tlsClientAuth peer with
  | none => simp
  | some cert =>
    simp only
    cases env.parse data with
    | none => simp
    | some rq =>
      simp only
      cases authenticate cfg.auth cert with
      | none => simp
      | some i =>
        simp only
        rcases he : env.engine s rq i with ⟨out, s'⟩
        cases out <;> simp

/-- in the property's words -/
theorem engine_called_iff_Established (env : Env Q R σ) (cfg : SessionCfg) (peer : Option Cert) (s : σ)
    (data : Bytes) (req : Q) (id : Identity) :
    (handleMessage env cfg peer s data).1.engineCall = some (req, id) ↔
    env.parse data = some req ∧ Established cfg.auth peer id := by
  rw [engine_called_iff_established, establish_ok_iff]

/-- no identity, no evaluation: the engine is not called and its state is untouched -/
theorem not_established_no_engine (env : Env Q R σ) (cfg : SessionCfg) (peer : Option Cert) (s : σ)
    (data : Bytes) (e : AuthFail) (h : establish cfg.auth peer = .error e) :
    (handleMessage env cfg peer s data).1.engineCall = none ∧ (handleMessage env cfg peer s data).2 = s := by
  constructor
  · cases hc : (handleMessage env cfg peer s data).1.engineCall with
    | none => rfl
    | some c =>
      obtain ⟨req, id⟩ := c
      have := (engine_called_iff_established env cfg peer s data req id).mp hc
      rw [h] at this; cases this.2
  · unfold handleMessage evaluate
    unfold establish at h
    cases hcs : certStage cfg.auth.tlsClientAuth peer with
    | none => rfl
    | some cert =>
      simp only [hcs] at h ⊢
      cases env.parse data with
      | none => rfl
      | some rq =>
        simp only
        cases ha : authenticate cfg.auth cert with
        | none => rfl
        | some i => rw [ha] at h; cases h

/-! ## what the client is told -/

/-- **Every failure to establish the identity is answered with AUTHENTICATION_NOT_SUCCESSFUL**
(for any request, i.e. any frame the decoder accepts; certificate-stage failures even before
decoding), the engine is not applied and its state is untouched.  The protocol version of the
answer is 1.0 for a certificate-stage failure, the request's otherwise. -/
theorem auth_failure_response (env : Env Q R σ) (cfg : SessionCfg) (henc : C12.EncoderOk env cfg)
    (peer : Option Cert) (s : σ) (data : Bytes) (e : AuthFail) (h : establish cfg.auth peer = .error e)
    (hreq : e = .certificate ∨ ∃ req, env.parse data = some req) :
    ∃ v, handleMessage env cfg peer s data = (⟨some (.error v SRsn.authenticationNotSuccessful), none⟩, s) ∧
      (e = .certificate → v = (1, 0)) ∧ (∀ req, e = .authentication → env.parse data = some req → v = env.version req) := by
  unfold handleMessage evaluate
  unfold establish at h
  cases hcs : certStage cfg.auth.tlsClientAuth peer with
  | none =>
    simp only [hcs] at h; cases h
    exact ⟨(1, 0), by simp only [C12.emit_error env cfg henc], fun _ => rfl, fun _ h' => (by cases h')⟩
  | some cert =>
    simp only [hcs] at h ⊢
    cases ha : authenticate cfg.auth cert with
    | some i => rw [ha] at h; cases h
    | none =>
      rw [ha] at h; cases h
      rcases hreq with h' | ⟨req, hp⟩
      · cases h'
      · simp only [hp]
        exact ⟨env.version req, by simp only [C12.emit_error env cfg henc], fun h' => (by cases h'),
          fun r _ hr => (by cases hr; rfl)⟩

/-- FULL reading "every failure ⇒ AUTHENTICATION_NOT_SUCCESSFUL" over frames instead of requests. -/
def AuthFailureAlwaysAuthReason (env : Env Q R σ) (cfg : SessionCfg) : Prop :=
  ∀ (peer : Option Cert) (s : σ) (data : Bytes) (e : AuthFail), establish cfg.auth peer = .error e →
    ∃ v, (handleMessage env cfg peer s data).1.sent = some (.error v SRsn.authenticationNotSuccessful)

/-- Over raw frames only this holds: the answer is an error with one of two reasons, because the
frame is decoded between the certificate checks and `authenticate` (an undecodable frame from a
client whose certificate passes the first stage is answered INVALID_MESSAGE).  The engine is not
applied either way (`not_established_no_engine`). -/
theorem auth_failure_response_frames_partial (env : Env Q R σ) (cfg : SessionCfg) (henc : C12.EncoderOk env cfg)
    (peer : Option Cert) (s : σ) (data : Bytes) (e : AuthFail) (h : establish cfg.auth peer = .error e) :
    ∃ v rsn, handleMessage env cfg peer s data = (⟨some (.error v rsn), none⟩, s) ∧
      (rsn = SRsn.authenticationNotSuccessful ∨ (rsn = SRsn.invalidMessage ∧ env.parse data = none)) := by
  cases hp : env.parse data with
  | some req =>
    obtain ⟨v, hv, _⟩ := auth_failure_response env cfg henc peer s data e h (Or.inr ⟨req, hp⟩)
    exact ⟨v, _, hv, Or.inl rfl⟩
  | none =>
    rw [C12.parse_failure_rejected env cfg henc peer s data hp]
    unfold C12.rejection
    cases certStage cfg.auth.tlsClientAuth peer with
    | none => exact ⟨_, _, rfl, Or.inl rfl⟩
    | some c => exact ⟨_, _, rfl, Or.inr ⟨rfl, rfl⟩⟩

/-! ### witnesses / non-vacuity -/

def noSlugs : Slugs := ⟨fun _ _ => .unreachable, fun _ _ => .unreachable⟩
/-- a SLUGS service at http://s/ that knows alice (groups g1, g2) and nobody else -/
def demoSlugs : Slugs :=
  ⟨fun url u => if url = "http://s/" ∧ u = "alice" then .status 200 .invalid else .status 404 .invalid,
   fun url u => if url = "http://s/" ∧ u = "alice" then .status 200 (.groups (some ["g1", "g2"])) else .status 404 .invalid⟩

def certAlice : Cert := ⟨some [.other, .clientAuth], ["alice"]⟩
def certTwo : Cert := ⟨some [.clientAuth], ["alice", "bob"]⟩
def certNoEku : Cert := ⟨none, ["alice"]⟩
def plugOff : Plugin := ⟨"auth:slugs", some "False", some "http://s"⟩
def plugOther : Plugin := ⟨"auth:ldap", some "True", some "http://s"⟩
def plugDead : Plugin := ⟨"auth:slugs:first", some "True", some "http://dead"⟩
def plugOn : Plugin := ⟨"auth:slugs", some "True", some "http://s"⟩

/-- no plug-in enabled: the common name alone -/
example : establish ⟨true, [plugOff, plugOther], noSlugs⟩ (some certAlice) = .ok ⟨some "alice", none⟩ := by decide +kernel
/-- first enabled plug-in fails, the second vouches: its groups accompany the identity -/
example : establish ⟨true, [plugOff, plugDead, plugOn], demoSlugs⟩ (some certAlice)
    = .ok ⟨some "alice", some ["g1", "g2"]⟩ := by decide +kernel
/-- an enabled plug-in that does not vouch is NOT replaced by the common-name fallback -/
example : establish ⟨true, [plugDead], demoSlugs⟩ (some certAlice) = .error .authentication := by decide +kernel
example : establish ⟨true, [], noSlugs⟩ none = .error .certificate := by decide +kernel
example : establish ⟨true, [], noSlugs⟩ (some certNoEku) = .error .certificate := by decide +kernel
example : establish ⟨false, [], noSlugs⟩ (some certNoEku) = .ok ⟨some "alice", none⟩ := by decide +kernel
example : establish ⟨true, [], noSlugs⟩ (some certTwo) = .error .authentication := by decide +kernel
/-- `Established` is satisfiable in both branches -/
example : Established ⟨true, [plugOff, plugDead, plugOn], demoSlugs⟩ (some certAlice) ⟨some "alice", some ["g1", "g2"]⟩ := by
  rw [← establish_ok_iff]; decide +kernel
example : Established ⟨true, [plugOff], noSlugs⟩ (some certAlice) ⟨some "alice", none⟩ := by
  rw [← establish_ok_iff]; decide +kernel

/-- witness for the frame-level deviation: certificate passes stage one, two common names,
undecodable frame ⇒ INVALID_MESSAGE, not AUTHENTICATION_NOT_SUCCESSFUL -/
def demoEnvNoParse : Env Unit Unit Unit := { C12.demoEnv none with parse := fun _ => none }

theorem auth_failure_unparsable_invalid_message :
    establish C12.demoCfg.auth (some certTwo) = .error .authentication ∧
    (handleMessage demoEnvNoParse C12.demoCfg (some certTwo) () []).1.sent = some (.error (1, 0) SRsn.invalidMessage) := by
  decide +kernel

theorem auth_failure_full_over_frames_fails : ¬ AuthFailureAlwaysAuthReason demoEnvNoParse C12.demoCfg := by
  intro h
  obtain ⟨v, hv⟩ := h (some certTwo) () [] .authentication auth_failure_unparsable_invalid_message.1
  rw [auth_failure_unparsable_invalid_message.2] at hv
  cases hv

end Kmip.C17
