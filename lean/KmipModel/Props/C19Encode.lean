/-
C19 / C01 / C12 through the request ENCODER model (M16, `KmipModel/EncodeRequest.lean`): "every request the client
emits, under each KMIP version it supports, is decodable by the server" and "decode ∘ encode = id for whole
messages", as THEOREMS about the composition of M16 with the request decoder model M14 (`KmipModel/Decode.lean`).

  request_roundtrip          for every request r of the domain `Encodable r`, whatever the server's default version dv:
                               Decode.decodeFrame dv (TTLV.encode (encRequest r)) = .ok (norm r)
                             ALL 21 dispatched operations, both forms (KMIP 1.x and 2.0), batches, header options;
                             (`Payload.unsupported` has no payload class in /repo and is outside `Encodable`)
  tree_roundtrip             the same on trees (no byte level): decodeRequest dv (encRequest r) = .ok (norm r)
  encRequest_valid           the emitted tree is a valid M1 item;  request_wellformed: its bytes are well-formed TTLV
                             (C02.encode_wellformed);  request_strict_decodes: M1's strict parser reads it back (C01)
  norm_exact                 on `Exact r` (decidable) `norm` only erases the scripted backend outcome: the payloads,
                             batch IDs and header fields of `norm r` are those of `r`
  norm_runs_like             … and the engine model cannot tell `norm r` from `r` once the backend's answers are
                             filled in (`Server.withOracle`): processRequest on both is the same
  client_frame_reaches_engine   the composed server model (`KmipModel/Server.lean`): the frame of an `Encodable`
                             request, from a client whose identity is established, reaches the engine model exactly
                             once as `norm r`, and the new engine state is `processRequest`'s
  served_like_original       … which for an `Exact` request is the state `processRequest` reaches on `r` itself

`Encodable r` = `okRequest r` (the encoder's domain: supported version, ASCII text, numbers within their primitive,
enumeration members, attribute names that are `enums.AttributeType` values and values of the kind their name
dictates, the per-version form restrictions, mandatory fields present) ∧ the frame is shorter than 2^32 bytes (it
has a length field at all).  Validity of the tree is DERIVED from these two (`Lemmas/EncodeRequestValid.lean`).
`norm` (EncodeRequest.lean) says exactly what M14 does not give back: the scripted backend outcome; under KMIP 2.0
template names and attribute indices; the 1.x / 2.0 fields of Modify/DeleteAttribute the version's form does not
carry; duplicate names of GetAttributes; the bits of a Cryptographic Usage Mask outside the enumeration; fields of a
Register object its class does not have; DeriveKey's data length when there is no data.

Tied to /repo by `harness/lib/encode_request_check.py`: byte equality of `requestBytes r` with
`RequestMessage.write` of `impl_engine.build_request` on every generated request of the domain, the real
`RequestMessage.read` on the model's bytes, and requests emitted by the real ProxyKmipClient.
-/
import KmipModel.Lemmas.EncodeRequestPayloads
import KmipModel.Lemmas.EncodeRequestExact
import KmipModel.Lemmas.EncodeRequestValid
import KmipModel.Props.C02
import KmipModel.Props.C01
import KmipModel.Props.Server
set_option linter.unusedSimpArgs false
namespace Kmip.C19Encode
open Kmip Kmip.TTLV Kmip.Decode Kmip.EncodeRequest

/-! ## the round trip -/

/-- **M14 reads back the tree M16 builds**, for every request of the encoder's domain -/
theorem tree_roundtrip (dv : Nat) (r : Request) (h : okRequest r = true) :
    decodeRequest dv (encRequest r) = .ok (norm r) := by
  obtain ⟨v, ts, as, bo, mx, items⟩ := r
  simp only [okRequest, Bool.and_eq_true] at h
  obtain ⟨⟨⟨⟨⟨hv, hm⟩, hb⟩, ht⟩, hl⟩, hi⟩ := h
  have hh := header_enc ⟨v, ts, as, bo, mx, items⟩ hv hb
  have hit := takeItems_enc v items hi
  have htag : (tagOf (encHeader ⟨v, ts, as, bo, mx, items⟩) == T.requestHeader) = true := rfl
  have hlen : (Int.ofNat items.length).toNat = items.length := rfl
  simp only at hh
  cases mx with
  | none => simp only [decodeRequest, encRequest, norm, ↓reduceIte, htag, hh, hlen, hit, Option.map_none, Option.getD_some]
  | some n =>
    simp only [decodeRequest, encRequest, norm, ↓reduceIte, htag, hh, hlen, hit, Option.map_some, Option.getD_some]
    rfl

/-- **C19 / C01 for whole request messages: what the client side encodes, the server side decodes** — to exactly the
request that was encoded, up to `norm`; for every operation, version, batch and header option of the domain and
whatever default version the server has. -/
theorem request_roundtrip (dv : Nat) (r : Request) (h : Encodable r) :
    Decode.decodeFrame dv (TTLV.encode (encRequest r)) = .ok (norm r) := by
  unfold Decode.decodeFrame
  have hv := valid_of_okRequest r h.1 h.2
  have : encRequest r = .struct T.requestMessage (encHeader r :: r.items.map (encItem r.version)) := rfl
  rw [this] at hv ⊢
  rw [lenientTop_encode _ _ hv.1 hv.2, ← this]
  exact tree_roundtrip dv r h.1

/-- **the emitted tree is a valid M1 item**: every tag is a KMIP tag, every number within the range of its primitive,
every length within 32 bits — derived from the encoder's domain and the one bound on the frame's length -/
theorem encRequest_valid (r : Request) (h : Encodable r) : (encRequest r).Valid :=
  (valid_of_okRequest r h.1 h.2).1

/-- **every emitted request is well-formed TTLV** (C02) -/
theorem request_wellformed (r : Request) (h : Encodable r) : WF (requestBytes r) :=
  C02.encode_wellformed _ (encRequest_valid r h)

/-- … and the STRICT parser of the specification (M1) reads the frame back to the tree (C01) -/
theorem request_strict_decodes (r : Request) (h : Encodable r) : decodeAll (requestBytes r) = some (encRequest r) :=
  C01.decodeAll_encode _ (encRequest_valid r h)

/-- the version, header fields, batch IDs and the number of items survive `norm` unconditionally -/
theorem norm_envelope (r : Request) :
    (norm r).version = r.version ∧ (norm r).timeStamp = r.timeStamp ∧ (norm r).async = r.async ∧
    (norm r).batchOption = r.batchOption ∧ (norm r).maxResponseSize = r.maxResponseSize ∧
    (norm r).items.map (·.batchId) = r.items.map (·.batchId) ∧
    (norm r).items.map (·.payload.op) = r.items.map (·.payload.op) := by
  refine ⟨rfl, rfl, rfl, rfl, rfl, ?_, ?_⟩
  · simp only [norm, List.map_map]; rfl
  · simp only [norm, List.map_map]
    apply List.map_congr_left
    intro it _
    obtain ⟨p, b, c⟩ := it
    simp only [Function.comp, normItem]
    cases p <;> simp only [normPayload] <;> first | rfl | (split <;> rfl)

/-- **on `Exact` requests `norm` only forgets the scripted backend outcome** (which is not on the wire) -/
theorem norm_exact (r : Request) (h : Exact r) : norm r = eraseCrypto r := EncodeRequest.norm_exact r h

/-- … so the engine model cannot tell `norm r` from `r` once the backend's answers are filled in: the request the
server model hands to `processRequest` is the same (for a backend whose answers do not depend on the placeholders) -/
theorem norm_runs_like (orc : Server.Oracle) (r : Request) (h : Exact r) (ho : orc (norm r) = orc r) :
    Server.withOracle orc (norm r) = Server.withOracle orc r := by
  rw [EncodeRequest.norm_exact r h] at ho ⊢
  obtain ⟨v, ts, as, bo, mx, items⟩ := r
  simp only [Server.withOracle, eraseCrypto] at ho ⊢
  rw [ho, fillCrypto_erase]

/-! ## through the composed server model -/

/-- **A frame the client side encodes for a request of the domain, sent by a client whose identity is established,
reaches the engine model exactly once, as `norm r`**, and the new engine state is `processRequest`'s on it. -/
theorem client_frame_reaches_engine (w : Server.World) (cfg : Session.SessionCfg) (peer : Option Session.Cert)
    (e : Engine) (r : Request) (id : Identity) (h : Encodable r) (hid : Session.establish cfg.auth peer = .ok id) :
    (Session.handleMessage (Server.serverEnv w) cfg peer e (requestBytes r)).1.engineCall = some (norm r, id) ∧
    (Session.handleMessage (Server.serverEnv w) cfg peer e (requestBytes r)).2 =
      (processRequest (w.ctxOf e) e id (Server.withOracle w.oracle (norm r))).1 :=
  ServerProps.decoded_frame_runs_engine w cfg peer e (requestBytes r) (norm r) id
    (request_roundtrip w.defaultVer r h) hid

/-- **… and for an `Exact` request the server model ends in the state `processRequest` reaches on `r` itself** -/
theorem served_like_original (w : Server.World) (cfg : Session.SessionCfg) (peer : Option Session.Cert)
    (e : Engine) (r : Request) (id : Identity) (h : Encodable r) (hx : Exact r) (ho : w.oracle (norm r) = w.oracle r)
    (hid : Session.establish cfg.auth peer = .ok id) :
    (Session.handleMessage (Server.serverEnv w) cfg peer e (requestBytes r)).2 =
      (processRequest (w.ctxOf e) e id (Server.withOracle w.oracle r)).1 := by
  rw [(client_frame_reaches_engine w cfg peer e r id h hid).2, norm_runs_like w.oracle r hx ho]

theorem parse_of_decode (w : Server.World) (bs : Bytes) (req : Request)
    (h : Decode.decodeFrame w.defaultVer bs = .ok req) : Server.parse w bs = some req := by
  unfold Server.parse; rw [h]

/-- an `Encodable` request is never dropped by the decoder: `RequestMessage.read` as the session calls it succeeds -/
theorem client_frame_parses (w : Server.World) (r : Request) (h : Encodable r) :
    Server.parse w (requestBytes r) = some (norm r) :=
  parse_of_decode w _ _ (request_roundtrip w.defaultVer r h)

/-! ## non-vacuity: concrete requests of the domain -/

def activateReq : Request :=
  { version := 12, timeStamp := none, async := none, batchOption := none, maxResponseSize := none,
    items := [⟨.activate (some "1"), none, .internal⟩] }

def locateReq : Request :=
  { version := 14, timeStamp := some 1000, async := none, batchOption := some 2, maxResponseSize := some 4096,
    items := [⟨.locate (some 5) none [⟨"Name", none, .name "key" 1⟩, ⟨"Cryptographic Usage Mask", none, .int 12⟩], some "b0", .internal⟩,
              ⟨.get none (some 1) false none, some "b1", .internal⟩] }

def createReq20 : Request :=
  { version := 20, timeStamp := none, async := none, batchOption := none, maxResponseSize := none,
    items := [⟨.create 2 (some ⟨0, [⟨"Cryptographic Algorithm", none, .enum 3⟩, ⟨"Cryptographic Length", none, .int 128⟩,
                                   ⟨"Cryptographic Usage Mask", none, .int 12⟩]⟩), none, .ok "00"⟩] }

example : Encodable activateReq := by decide +kernel
example : Encodable locateReq := by decide +kernel
example : Encodable createReq20 := by decide +kernel
example : Exact activateReq ∧ Exact locateReq ∧ Exact createReq20 := by decide +kernel
/-- not exact: a KMIP 2.0 template with an attribute index (the `Attributes` structure has no place for it) -/
example : ¬ Exact { createReq20 with items := [⟨.create 2 (some ⟨0, [⟨"Name", some 0, .name "k" 1⟩]⟩), none, .internal⟩] } := by
  decide +kernel

/-- the frame of the Activate request is the 120 bytes PyKMIP writes for it (`requestBytes` evaluated) -/
example : (requestBytes activateReq).length = 120 := by decide +kernel

/-- outside the domain: a non-ASCII identifier (C01: /repo cannot encode it), an unknown version, Query without functions -/
example : ¬ Encodable { activateReq with items := [⟨.activate (some "é"), none, .internal⟩] } := by decide +kernel
example : ¬ Encodable { activateReq with version := 21 } := by decide +kernel
example : ¬ Encodable { activateReq with items := [⟨.query [], none, .internal⟩] } := by decide +kernel

end Kmip.C19Encode
