/-
C04 — Object lifecycle is monotone and gates every cryptographic use.
The cryptography backend is an arbitrary oracle (`Crypto` value per item), so the
guards hold whatever the backend answers.
-/
import KmipModel.Lemmas.Evolve
namespace Kmip.C04
open Kmip

/-- **Monotone lifecycle over every history.**  Pre-Active(0) → Active(1) →
Deactivated(2) → Compromised(3): along any sequence of requests by any clients
(any operations, any batches) and restarts, the state rank of every surviving
object never decreases, and every stored state is one of the four legal ones. -/
theorem state_history_monotone (steps : List Step) (hok : StepsOk steps) :
    ∀ e0 : Engine, e0.store.Inv → e0.store.StatesOk →
    ∀ o ∈ e0.store.objs, ∀ o' ∈ (run e0 steps).store.objs, o'.uid = o.uid →
      rank o.state ≤ rank o'.state ∧ StateOk o'.state := by
  intro e0 hi hs o ho o' ho' hu
  have := (run_evolves e0 steps hok hi hs).persist o ho o' ho' hu
  exact ⟨this.rank, this.stateOk⟩

/-- from the empty server: all reachable states are legal -/
theorem reachable_states_legal (steps : List Step) (hok : StepsOk steps) :
    (run Engine.init steps).store.StatesOk :=
  (run_evolves Engine.init steps hok Store.inv_empty (by intro o ho; simp [Engine.init, Store.empty] at ho)).ok

/-- **Exact transitions.** A single successful operation changes the state of an
object only as: Pre-Active→Active (Activate), Active→Deactivated (Revoke, reason other
than key compromise), anything→Compromised (Revoke, key compromise). -/
theorem state_transitions_exact {c : Ctx} {e : Engine} {it : Item} {eff : Effect} {d : Data}
    (hr : RulesProtect c) (h : processOperation c e it = .ok (eff, d)) :
    (∀ o', eff = .update o' → ∃ o ∈ e.store.objs, o'.uid = o.uid ∧
        (o'.state = o.state ∨
         (o.state = some St.preActive ∧ o'.state = some St.active) ∨
         (o.state = some St.active ∧ o'.state = some St.deactivated) ∨
         (∃ s, o.state = some s ∧ o'.state = some (compromiseState s)))) := by
  intro o' he
  have hs := processOperation_spec hr h
  rw [he] at hs
  generalize it.payload.op = op at hs
  cases hs with
  | activate o ho _ hst => exact ⟨o, ho, rfl, Or.inr (Or.inl ⟨hst, rfl⟩)⟩
  | revokeCompromise o s ho _ hst => exact ⟨o, ho, rfl, Or.inr (Or.inr (Or.inr ⟨s, hst, rfl⟩))⟩
  | revokeDeactivate o ho _ hst => exact ⟨o, ho, rfl, Or.inr (Or.inr (Or.inl ⟨hst, rfl⟩))⟩
  | attr o _ _ ho _ _ hp => exact ⟨o, ho, hp.uid, Or.inl hp.state⟩

/-- **Only Activate and Revoke change the state.** -/
theorem only_activate_revoke_change_state {c : Ctx} {e : Engine} {it : Item} {eff : Effect} {d : Data}
    (hr : RulesProtect c) (h : processOperation c e it = .ok (eff, d))
    (hop : it.payload.op ≠ Op.activate ∧ it.payload.op ≠ Op.revoke) :
    ∀ o', eff = .update o' → ∃ o ∈ e.store.objs, o'.uid = o.uid ∧ o'.state = o.state := by
  intro o' he
  have hs := processOperation_spec hr h
  rw [he] at hs
  generalize hop' : it.payload.op = op at hs hop
  cases hs with
  | activate o ho _ hst => exact absurd rfl hop.1
  | revokeCompromise o s ho _ hst => exact absurd rfl hop.2
  | revokeDeactivate o ho _ hst => exact absurd rfl hop.2
  | attr o _ _ ho _ _ hp => exact ⟨o, ho, hp.uid, hp.state⟩

/-! ### every cryptographic use is gated by state, kind and usage-mask bit -/

theorem cryptoGuard_ok {c : Ctx} {e : Engine} {uid : Option String} {p : Bool} {kind bit : Nat} {o : Obj}
    (h : cryptoGuard c e uid p kind bit = .ok o) :
    o ∈ e.store.objs ∧ Allowed c e o Op.get ∧ o.otype = kind ∧ o.state = some St.active ∧
    hasBit (o.mask.getD 0) bit = true := by
  unfold cryptoGuard at h
  inv h
  obtain ⟨o1, ho1, _, hk, hst, hb, rfl⟩ := h
  have hg := getWithAccess_ok ho1
  refine ⟨hg.2.1, hg.2.2, ?_, ?_, ?_⟩
  · simpa using hk
  · simpa using hst
  · simpa using hb

/-- Encrypt succeeds only with an Active symmetric key whose mask has the Encrypt bit. -/
theorem encrypt_success_requires {c e u p cr eff d} (h : opEncrypt c e u p cr = .ok (eff, d)) :
    ∃ o ∈ e.store.objs, o.otype = OT.symmetricKey ∧ o.state = some St.active ∧
      hasBit (o.mask.getD 0) Mask.encrypt = true ∧ Allowed c e o Op.get := by
  unfold opEncrypt at h; inv h
  obtain ⟨o, ho, _⟩ := h
  have := cryptoGuard_ok ho
  exact ⟨o, this.1, this.2.2.1, this.2.2.2.1, this.2.2.2.2, this.2.1⟩

theorem decrypt_success_requires {c e u p cr eff d} (h : opDecrypt c e u p cr = .ok (eff, d)) :
    ∃ o ∈ e.store.objs, o.otype = OT.symmetricKey ∧ o.state = some St.active ∧
      hasBit (o.mask.getD 0) Mask.decrypt = true ∧ Allowed c e o Op.get := by
  unfold opDecrypt at h; inv h
  obtain ⟨o, ho, _⟩ := h
  have := cryptoGuard_ok ho
  exact ⟨o, this.1, this.2.2.1, this.2.2.2.1, this.2.2.2.2, this.2.1⟩

theorem sign_success_requires {c e u p cr eff d} (h : opSign c e u p cr = .ok (eff, d)) :
    ∃ o ∈ e.store.objs, o.otype = OT.privateKey ∧ o.state = some St.active ∧
      hasBit (o.mask.getD 0) Mask.sign = true ∧ Allowed c e o Op.get := by
  unfold opSign at h; inv h
  obtain ⟨o, ho, _⟩ := h
  have := cryptoGuard_ok ho
  exact ⟨o, this.1, this.2.2.1, this.2.2.2.1, this.2.2.2.2, this.2.1⟩

theorem signature_verify_success_requires {c e u p cr eff d} (h : opSignatureVerify c e u p cr = .ok (eff, d)) :
    ∃ o ∈ e.store.objs, o.otype = OT.publicKey ∧ o.state = some St.active ∧
      hasBit (o.mask.getD 0) Mask.verify = true ∧ Allowed c e o Op.get := by
  unfold opSignatureVerify at h; inv h
  obtain ⟨o, ho, _⟩ := h
  have := cryptoGuard_ok ho
  exact ⟨o, this.1, this.2.2.1, this.2.2.2.1, this.2.2.2.2, this.2.1⟩

theorem mac_success_requires {c e u a dt cr eff d} (h : opMac c e u a dt cr = .ok (eff, d)) :
    ∃ o ∈ e.store.objs, o.state = some St.active ∧ hasBit (o.mask.getD 0) Mask.macGenerate = true ∧
      Allowed c e o Op.get := by
  unfold opMac at h
  inv h
  obtain ⟨o, ho, _, _, _, hst, hb, _⟩ := h
  have hg := getWithAccess_ok ho
  exact ⟨o, hg.2.1, by simpa using hst, by simpa using hb, hg.2.2⟩

/-- Use as a wrapping key: Get with a key wrapping specification succeeds only if the
wrapping key is an Active symmetric key with the Wrap Key bit (and readable by the requester). -/
theorem wrapping_key_requires {c e o w cr tok} (h : wrapGuards c e o w cr = .ok tok) :
    ∃ ku key, w.encKeyUid = some ku ∧ key ∈ e.store.objs ∧ key.otype = OT.symmetricKey ∧
      key.state = some St.active ∧ hasBit (key.mask.getD 0) Mask.wrapKey = true ∧ Allowed c e key Op.get := by
  unfold wrapGuards at h
  inv h
  obtain ⟨_, h⟩ := h
  split at h
  · rename_i ku hku
    inv h
    obtain ⟨key, hkey, hk, hst, hb, _⟩ := h
    unfold getWrapKey at hkey
    split at hkey
    · rename_i k hk'
      inv hkey
      subst hkey
      have hg := getWithAccess_ok hk'
      exact ⟨ku, k, hku, hg.2.1, by simpa using hk, by simpa using hst, by simpa using hb, hg.2.2⟩
    · inv hkey
  · split at h <;> inv h

theorem deriveBases_ok {c : Ctx} {e : Engine} {us : List String} {bases : List Obj}
    (h : deriveBases c e us = .ok bases) :
    ∀ b ∈ bases, b ∈ e.store.objs ∧ Allowed c e b Op.get ∧ ∃ m, b.mask = some m ∧ hasBit m Mask.deriveKey = true := by
  induction us generalizing bases with
  | nil => simp [deriveBases, pure, Except.pure] at h; subst h; simp
  | cons u us ih =>
    unfold deriveBases at h
    inv h
    obtain ⟨o, ho, _, h⟩ := h
    have hg := getWithAccess_ok ho
    split at h
    · inv h
    · rename_i m hm
      inv h
      obtain ⟨hb, rest, hrest, rfl⟩ := h
      intro b hb'
      simp only [List.mem_cons] at hb'
      rcases hb' with rfl | hb'
      · exact ⟨hg.2.1, hg.2.2, m, hm, by simpa using hb⟩
      · exact ih hrest b hb'

/-- DeriveKey requires the Derive Key bit on every base object (and read access to it). -/
theorem derive_requires_mask {c e ot us t cr eff d} (h : opDeriveKey c e ot us t cr = .ok (eff, d)) :
    ∃ bases, bases ≠ [] ∧ ∀ b ∈ bases, b ∈ e.store.objs ∧ Allowed c e b Op.get ∧
      ∃ m, b.mask = some m ∧ hasBit m Mask.deriveKey = true := by
  unfold opDeriveKey at h
  inv h
  obtain ⟨_, _, _, bases, hb, hne, _⟩ := h
  exact ⟨bases, by intro h; simp [h] at hne, deriveBases_ok hb⟩

/-- Destroy is refused for an Active object. -/
theorem destroy_refused_when_active {c : Ctx} {e : Engine} {u : Option String} {o : Obj}
    (ho : getWithAccess c e (uidOrObj u e.placeholder) Op.destroy = .ok o) (hact : o.state = some St.active) :
    opDestroy c e u = .error (.kmip Rsn.permissionDenied "Object is active and cannot be destroyed.") := by
  simp [opDestroy, bind, Except.bind, ho, hact, kerr]

/-! Non-vacuity -/
example : StepsOk [] := by intro s hs; cases hs
example : rank (some St.preActive) < rank (some St.active) ∧ rank (some St.active) < rank (some St.deactivated) ∧
    rank (some St.deactivated) < rank (some St.compromised) := by decide

end Kmip.C04
