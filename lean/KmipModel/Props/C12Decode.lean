/-
C12, "executes no part of a request it could not fully decode", for the batch structure of a request message.

Over the request decoder model M14 (`Decode.lean`, tied to `RequestMessage.read` by `decode_check` and - since round 7 -
by the ground-truth mutation class `itemcut` of the C12 check): a frame is decoded only if it HOLDS as many Request
Batch Items as its Batch Count announces, each at its announced position; a frame whose count exceeds the items
present, that ends at an item boundary, or that carries something else where an announced item should start is
rejected as a whole - and by `Props/Server.undecodable_frame_is_noop` such a frame never reaches the engine.
(The seeded change `C12-batch-items-read-while-tag-next` read items "while the next tag is a batch item" with the
count as an upper bound: exactly the statements below became false.)
-/
import KmipModel.Props.Server
import KmipModel.Props.C13Decode
namespace Kmip.C12Decode
open Kmip Kmip.Decode

/-- what `takeItems` accepts: exactly `n` items were decoded, the list held at least `n` items and each of the first
`n` carries the Request Batch Item tag -/
theorem takeItems_complete (ver : Option Nat) (n : Nat) (xs : List TItem) (items : List Kmip.Item)
    (h : takeItems ver n xs = .ok items) :
    items.length = n ∧ n ≤ xs.length ∧ ∀ x ∈ xs.take n, (tagOf x == T.batchItem) = true := by
  induction n generalizing xs items with
  | zero =>
    simp only [takeItems, Except.ok.injEq] at h
    subst h
    simp
  | succ n ih =>
    cases xs with
    | nil => simp [takeItems] at h
    | cons i rest =>
      simp only [takeItems] at h
      split at h
      · rename_i htag
        split at h
        · cases h
        · split at h
          · rename_i xs' hrest
            simp only [Except.ok.injEq] at h
            subst h
            obtain ⟨h1, h2, h3⟩ := ih rest xs' hrest
            refine ⟨by simp [h1], by simp; omega, ?_⟩
            intro x hx
            simp only [List.take_succ_cons, List.mem_cons] at hx
            rcases hx with rfl | hx
            · exact htag
            · exact h3 x hx
          · cases h
      · cases h

/-- a Batch Count larger than the number of items present is never accepted -/
theorem count_exceeds_items_rejected (ver : Option Nat) (n : Nat) (xs : List TItem) (h : xs.length < n) :
    ∃ e, takeItems ver n xs = .error e := by
  cases hr : takeItems ver n xs with
  | error e => exact ⟨e, rfl⟩
  | ok items => have := (takeItems_complete ver n xs items hr).2.1; omega

/-- an announced position that does not carry the Request Batch Item tag is never accepted -/
theorem wrong_tag_at_announced_position_rejected (ver : Option Nat) (n : Nat) (xs : List TItem) (x : TItem)
    (hx : x ∈ xs.take n) (htag : (tagOf x == T.batchItem) = false) : ∃ e, takeItems ver n xs = .error e := by
  cases hr : takeItems ver n xs with
  | error e => exact ⟨e, rfl⟩
  | ok items =>
    have := (takeItems_complete ver n xs items hr).2.2 x hx
    rw [htag] at this; cases this

/-- the same at the level of the message: a decoded request has exactly as many items as its header announced, and
the message held them -/
theorem decoded_request_holds_announced_items (dv : Nat) (t : Nat) (h : TItem) (rest : List TItem) (req : Request)
    (hd : decodeRequest dv (.struct t (h :: rest)) = .ok req) :
    ∃ hdr, inStruct "RequestHeader" headerBody h = .ok hdr ∧ req.items.length = hdr.batchCount.toNat ∧
      hdr.batchCount.toNat ≤ rest.length := by
  simp only [decodeRequest] at hd
  split at hd
  · split at hd
    · split at hd
      · cases hd
      · rename_i hdr hh
        split at hd
        · cases hd
        · rename_i items hi
          have hc := takeItems_complete _ _ _ _ hi
          split at hd
          · cases hd
          · simp only [Except.ok.injEq] at hd
            subst hd
            exact ⟨hdr, hh, hc.1, hc.2.1⟩
    · cases hd
  · cases hd

/-! ### non-vacuity: the 240-byte Create request PyKMIP's own encoder writes (`C13Decode.createFrame`) -/

/-- it decodes (one item announced, one held) … -/
example : (match decodeFrame 12 C13Decode.createFrame with | .ok r => r.items.length == 1 | .error _ => false) = true := by
  decide +kernel

/-- … with its Batch Count raised to 2 it is rejected (byte 67 is the low byte of the count) … -/
example : (match decodeFrame 12 (C13Decode.createFrame.set 67 2) with | .ok _ => false | .error _ => true) = true := by
  decide +kernel

/-- … cut at the boundary of its item (72 bytes = message header + request header; outer length made consistent)
it is rejected … -/
example : (match decodeFrame 12 ((C13Decode.createFrame.take 72).set 7 0x40) with | .ok _ => false | .error _ => true)
    = true := by decide +kernel

/-- … and so it is when the tag of its item is not Request Batch Item (byte 74: 0x0f -> 0x10) -/
example : (match decodeFrame 12 (C13Decode.createFrame.set 74 0x10) with | .ok _ => false | .error _ => true) = true := by
  decide +kernel

end Kmip.C12Decode
