/-
C18 — Policies in force follow the policy files; built-in policies are untouchable.

Model M6 (`KmipModel/Monitor.lean`): `scan` transcribes `PolicyDirectoryMonitor.scan_policies`,
`readPolicy` transcribes `read_policy_from_file` / `parse_policy`.  The declarative side
(`KmipModel/MonitorSpec.lean`): `specStore` — each name maps to the definition in the most
recently loaded file that still defines it — and `DocOK` — the documented file format.

What is proved
  * `monitor_refines_spec_partial`  the store after any history equals `specStore`, for the histories on
    which this is TRUE of the code as it is: no file is ever reloaded without a name it defined while
    another file's definition of that name was in force (`NoShadowedDrop`).
  * `shadowed_drop_witness`, `monitor_refines_spec_fails_without_guard`  the guard cannot be dropped
    (defect F-C18-a: the dropped definition is resurrected).
  * `reserved_untouched`  for ALL histories (malformed snapshots and parser crashes included).
  * `bad_file_rejected_whole`, `scan_with_only_bad_files_changes_nothing`.
  * `scan_no_internal_failure`  on every path the only exception that can escape a scan is the parser's.
  * `read_policy_spec`  accepted ⇔ `DocOK`;  `invalid_document_rejected`.
  * `read_policy_total_partial`  ValueError is the only failure for well-typed, unmixed documents; the
    witnesses `crash_*` and `read_policy_total_fails_without_guard` show that both guards are needed
    (defect F-C18-b).
-/
import KmipModel.Lemmas.Monitor
import KmipModel.Lemmas.PolicyFile
namespace Kmip.C18
open Kmip Kmip.Mon

/-! ## histories -/

/-- every listing names each file once and every successful read returned a dict -/
def HistWF (h : List DirSnapshot) : Prop := ∀ d ∈ h, d.WF
/-- no read raised anything but ValueError -/
def HistNoCrash (h : List DirSnapshot) : Prop := ∀ d ∈ h, d.NoCrash
/-- **the guard that excludes F-C18-a**: along the history no file was reloaded successfully WITHOUT a
(non-reserved) name it defined at a moment when the definition in force for that name came from another,
more recently loaded file. -/
def NoShadowedDrop (R : List Name) (h : List DirSnapshot) : Prop := (specRun R h).shadowedDrop = false

instance (h : List DirSnapshot) : Decidable (HistWF h) := by unfold HistWF; infer_instance
instance (h : List DirSnapshot) : Decidable (HistNoCrash h) := by unfold HistNoCrash; infer_instance
instance (R : List Name) (h : List DirSnapshot) : Decidable (NoShadowedDrop R h) := by unfold NoShadowedDrop; infer_instance

/-! ### what the specification says (the property's sentence, clause by clause) -/

/-- "names no file defines are gone" -/
theorem spec_undefined_names_are_gone (R : List Name) (sp : SpecState) (p : Name) :
    specStore R sp p = none ↔ R.contains p = true ∨ ∀ e ∈ sp.loaded, dget e.2 p = none := by
  unfold specStore
  by_cases hR : R.contains p = true
  · rw [if_pos hR]; exact ⟨fun _ => Or.inl hR, fun _ => rfl⟩
  · simp only [hR, Bool.false_eq_true, if_false, false_or, Option.map_eq_none_iff, List.head?_eq_none_iff]
    simp only [definers, List.filterMap_eq_nil_iff, Option.map_eq_none_iff]

/-- "each policy name maps to the definition in the most recently loaded file that still defines it" -/
theorem spec_latest_loader_wins (R : List Name) (sp : SpecState) (p : Name) (newer older : List (File × List (Name × PolId)))
    (f : File) (defs : List (Name × PolId)) (d : PolId) (hR : R.contains p = false)
    (hl : sp.loaded = newer ++ (f, defs) :: older) (hnew : ∀ e ∈ newer, dget e.2 p = none) (hd : dget defs p = some d) :
    specStore R sp p = some d := by
  have h1 : definers p newer = [] := by
    simp only [definers, List.filterMap_eq_nil_iff, Option.map_eq_none_iff]; exact hnew
  simp only [specStore, hR, Bool.false_eq_true, if_false, hl, definers, List.filterMap_append, List.filterMap_cons, hd,
    Option.map_some]
  simp only [definers] at h1
  rw [h1]; rfl

/-- "an earlier definition reappears when the file shadowing it is removed …" -/
theorem spec_earlier_definition_reappears_on_removal (R : List Name) (sp : SpecState) (p : Name) (f g : File)
    (d d' : PolId) (rest : List (File × PolId)) (hR : R.contains p = false) (hfg : g ≠ f)
    (hd : definers p sp.loaded = (f, d) :: (g, d') :: rest) :
    specStore R sp p = some d ∧ specStore R (specRemove sp f) p = some d' := by
  constructor
  · simp only [specStore, hR, Bool.false_eq_true, if_false, hd]; rfl
  · simp only [specStore, hR, Bool.false_eq_true, if_false, specRemove]
    rw [definers_filter, hd]
    simp [hfg]

/-- "… or stops defining the name" -/
theorem spec_earlier_definition_reappears_on_drop (R : List Name) (snap : DirSnapshot) (sp : SpecState) (p : Name)
    (f g : File) (d d' : PolId) (rest : List (File × PolId)) (t ts : Nat) (defs : List (Name × PolId))
    (hR : R.contains p = false) (hfg : g ≠ f) (hd : definers p sp.loaded = (f, d) :: (g, d') :: rest)
    (hsnap : dget snap f = some (t, .ok defs)) (hseen : dget sp.seen f = some ts) (hnew : t > ts)
    (hdrop : dget defs p = none) :
    specStore R (specVisit R snap sp f) p = some d' := by
  simp only [specVisit, hsnap, hseen, hnew, if_true, specStore, hR, Bool.false_eq_true, if_false]
  rw [definers_cons, hdrop]
  simp only
  rw [definers_filter, hd]
  simp [hfg]

/-! ### the refinement -/

/-- **Refinement, for the histories on which it holds of the code as it is.**  After any well-formed,
crash-free history without a shadowed drop, every reserved name still has its initial entry and every
other name is in force exactly with the definition the policy files give it. -/
theorem monitor_refines_spec_partial (R : List Name) (store0 : List (Name × PolId)) (h : List DirSnapshot)
    (hw : HistWF h) (hc : HistNoCrash h) (hg : NoShadowedDrop R h) (p : Name) :
    dget (run R store0 h).store p = if R.contains p then dget store0 p else specStore R (specRun R h) p := by
  have := (inv_run R store0 h _ _ (inv_init R store0) (by intro f hf; simp [MonState.init, dkeys] at hf)
    (fun d hd => ⟨hw d hd, hc d hd⟩) hg).1
  exact store_of_inv R store0 _ _ this p

/-- under the same guards every scan of the history ends normally (no exception escapes) -/
theorem scan_ends_normally_partial (R : List Name) (store0 : List (Name × PolId)) (h : List DirSnapshot) (snap : DirSnapshot)
    (hw : HistWF (h ++ [snap])) (hc : HistNoCrash (h ++ [snap])) (hg : NoShadowedDrop R (h ++ [snap])) :
    ∃ s', scanE R (run R store0 h) snap = .ok s' := by
  have hg' : (specScan R (specRun R h) snap).shadowedDrop = false := by
    have : specRun R (h ++ [snap]) = specScan R (specRun R h) snap := by simp [specRun, List.foldl_append]
    rw [← this]; exact hg
  have hgh : (specRun R h).shadowedDrop = false := flag_scan_mono R _ snap hg'
  obtain ⟨hi, hk⟩ := inv_run R store0 h _ _ (inv_init R store0) (by intro f hf; simp [MonState.init, dkeys] at hf)
    (fun d hd => ⟨hw d (List.mem_append_left _ hd), hc d (List.mem_append_left _ hd)⟩) hgh
  obtain ⟨s', hs, _⟩ := inv_scan R store0 _ _ snap hi hk (hw snap (by simp)) (hc snap (by simp)) hg'
  exact ⟨s', hs⟩

/-- **No exception of the monitor's own making, on any path**: whatever the history (shadowed drops and
parser crashes included), the only exception that can escape the next scan is the one
`read_policy_from_file` raised — never the `None.append` of l.120, never a missing file. -/
theorem scan_no_internal_failure (R : List Name) (store0 : List (Name × PolId)) (h : List DirSnapshot) (snap : DirSnapshot)
    (hw : HistWF (h ++ [snap])) (s' : MonState) (e : Exn)
    (herr : scanE R (run R store0 h) snap = .error (s', e)) : ∃ cls, e = .parser cls := by
  have hrun := cinv_run R h _ (cinv_init R store0) (fun d hd => hw d (List.mem_append_left _ hd))
  have := cinv_scanE R _ snap (hw snap (by simp)) hrun
  unfold run at herr
  rw [herr] at this
  exact this.2

/-! ### F-C18-a: the guard cannot be dropped -/

def R0 : List Name := ["default", "public"]
def store00 : List (Name × PolId) := [("default", 0), ("public", 1)]

/-- a.json and b.json both define `p` (b loaded last: b's definition 11 is in force); a.json is edited
and now defines only `q`; b.json is removed. -/
def shadowedDropHistory : List DirSnapshot :=
  [ [("a.json", 10, .ok [("p", 10)]), ("b.json", 20, .ok [("p", 11)])],
    [("a.json", 30, .ok [("q", 12)]), ("b.json", 20, .ok [("p", 11)])],
    [("a.json", 30, .ok [("q", 12)])] ]

/-- **Witness of F-C18-a** (`decide`): the history is well-formed and crash-free, no file defines `p` any
more, the specification says `p` is gone — and the monitor has `p` in force with a.json's OLD definition. -/
theorem shadowed_drop_witness :
    HistWF shadowedDropHistory ∧ HistNoCrash shadowedDropHistory ∧
    specStore R0 (specRun R0 shadowedDropHistory) "p" = none ∧
    dget (run R0 store00 shadowedDropHistory).store "p" = some 10 ∧
    ¬ NoShadowedDrop R0 shadowedDropHistory := by
  decide

/-- the refinement statement without the `NoShadowedDrop` guard is FALSE for the code as it is -/
theorem monitor_refines_spec_fails_without_guard :
    ¬ (∀ (R : List Name) (store0 : List (Name × PolId)) (h : List DirSnapshot), HistWF h → HistNoCrash h →
        ∀ p, dget (run R store0 h).store p = if R.contains p then dget store0 p else specStore R (specRun R h) p) := by
  intro hall
  have := hall R0 store00 shadowedDropHistory shadowed_drop_witness.1 shadowed_drop_witness.2.1 "p"
  rw [shadowed_drop_witness.2.2.2.1] at this
  revert this
  decide

/-! ### reserved names -/

/-- **The built-in policies are never replaced or removed** — for all histories, without any assumption on
the snapshots (duplicate names, parser crashes, anything): a reserved name keeps the entry the server put
into the store, and never gets an owner file (so no later removal can touch it). -/
theorem reserved_untouched (R : List Name) (store0 : List (Name × PolId)) (h : List DirSnapshot) (p : Name)
    (hp : R.contains p = true) :
    dget (run R store0 h).store p = dget store0 p ∧ dget (run R store0 h).map p = none :=
  ⟨(rinv_run R store0 h p hp).2, (rinv_run R store0 h p hp).1⟩

/-- a file that defines a reserved name: the definition is thrown out, the rest of the file is loaded -/
example : (run R0 store00 [[("a.json", 10, .ok [("default", 7), ("p", 8)])]]).store
    = [("default", 0), ("public", 1), ("p", 8)] := by decide

/-! ### a file that is not a valid policy document -/

/-- **Rejected as a whole**: visiting a file whose read raises ValueError changes nothing but that file's
time stamp (and not even that when the mtime is not newer). -/
theorem bad_file_rejected_whole (R : List Name) (snap : DirSnapshot) (s : MonState) (f : File) (t ts : Nat)
    (hsnap : dget snap f = some (t, .rejected)) (hts : dget s.timestamps f = some ts) :
    visit R snap s f = .ok (if t > ts then { s with timestamps := dset s.timestamps f t } else s) := by
  unfold visit
  simp only [hsnap, hts]
  split <;> rfl

/-- the same seen from a whole scan: when the listing is unchanged and every file is either unchanged or
not a valid policy document, the scan ends normally and store, owner map and cache are exactly as before -/
theorem scan_with_only_bad_files_changes_nothing (R : List Name) (s : MonState) (snap : DirSnapshot)
    (hfiles : sortFiles (dkeys snap) = s.files)
    (hq : ∀ g, g ∈ dkeys s.timestamps →
      ∃ t pr ts, dget snap g = some (t, pr) ∧ dget s.timestamps g = some ts ∧ (t ≤ ts ∨ pr = .rejected)) :
    ∃ s', scanE R s snap = .ok s' ∧ s'.store = s.store ∧ s'.map = s.map ∧ s'.cache = s.cache :=
  let ⟨s', h, a, b, c, _⟩ := scan_quiet R s snap hfiles hq
  ⟨s', h, a, b, c⟩

/-! ### non-vacuity of the refinement guards: shadowing, restoration on removal, restoration on drop by the
owner, a broken file in between — all inside `NoShadowedDrop` -/

def goodHistory : List DirSnapshot :=
  [ [("a.json", 10, .ok [("p", 10), ("q", 13)]), ("b.json", 20, .ok [("p", 11)])],      -- b shadows a on p
    [("a.json", 10, .ok [("p", 10), ("q", 13)]), ("b.json", 30, .rejected)],             -- b broken: nothing moves
    [("a.json", 10, .ok [("p", 10), ("q", 13)]), ("b.json", 40, .ok [("r", 14)])],       -- b (owner) drops p: a's p is back
    [("b.json", 40, .ok [("r", 14)])] ]                                                  -- a removed: p, q gone

example : HistWF goodHistory ∧ HistNoCrash goodHistory ∧ NoShadowedDrop R0 goodHistory := by decide
example : (run R0 store00 (goodHistory.take 1)).store = [("default", 0), ("public", 1), ("p", 11), ("q", 13)] := by decide
example : (run R0 store00 (goodHistory.take 2)).store = [("default", 0), ("public", 1), ("p", 11), ("q", 13)] := by decide
example : (run R0 store00 (goodHistory.take 3)).store = [("default", 0), ("public", 1), ("p", 10), ("q", 13), ("r", 14)] := by decide
example : (run R0 store00 goodHistory).store = [("default", 0), ("public", 1), ("r", 14)] := by decide
example : specStore R0 (specRun R0 (goodHistory.take 3)) "p" = some 10 := by decide

/-! ## policy documents -/

/-- **Accepted ⇔ documented shape.**  `read_policy_from_file` returns iff the document is a JSON object whose
values are policy bodies: empty, or sections `preset` / `groups` holding tables (a falsy section value counts
as absent), or object types at the top level; tables map known object types to known operations to known
permissions. -/
theorem read_policy_spec (T : NameTables) (j : J) : (∃ r, readPolicy T (some j) = .ok r) ↔ DocOK T j :=
  readPolicy_ok T j

/-- text that `json.loads` refuses is rejected (ValueError) -/
theorem bad_json_rejected (T : NameTables) : readPolicy T none = .error .reject := rfl

/-- **Totality, in the form that is true today**: on a document all of whose nodes have the JSON type the
format prescribes (`DocTyped`) and none of whose bodies mixes section names with object type names
(`DocUnmixed`), the parser returns or raises ValueError — nothing else. -/
theorem read_policy_total_partial (T : NameTables) (j : J) (ht : DocTyped T j) (hm : DocUnmixed T j) :
    (∃ r, readPolicy T (some j) = .ok r) ∨ readPolicy T (some j) = .error .reject := by
  cases h : readPolicy T (some j) with
  | ok r => exact Or.inl ⟨r, rfl⟩
  | error e => rw [readPolicy_onlyRejects T j ht hm e h]; exact Or.inr rfl

/-- **Unknown object type / operation / permission / section ⇒ rejected**: a well-typed, unmixed document that
is not in a documented shape raises ValueError. -/
theorem invalid_document_rejected (T : NameTables) (j : J) (ht : DocTyped T j) (hm : DocUnmixed T j)
    (hbad : ¬ DocOK T j) : readPolicy T (some j) = .error .reject := by
  rcases read_policy_total_partial T j ht hm with h | h
  · exact absurd ((read_policy_spec T j).mp h) hbad
  · exact h

/-- how a parse ended -/
def outcome {α} : Except PErr α → Option PErr
  | .ok _ => none
  | .error e => some e

/-- build a JSON object -/
abbrev o (kvs : List (String × J)) : J := .obj kvs
def goodTable : J := o [("SYMMETRIC_KEY", o [("GET", .str "ALLOW_ALL")])]

/-! ### F-C18-b: the inputs on which the parser raises something else (`decide`, live name tables) -/

/-- `[1, 2]` : `policy_blob.items()` -/
theorem crash_document_not_object : outcome (readPolicy liveTables (some (.arr [.num 1, .num 2]))) = some .attributeError := by decide
/-- `{"x": 5}` : `object_policy.keys()` -/
theorem crash_body_not_object : outcome (readPolicy liveTables (some (o [("x", .num 5)]))) = some .attributeError := by decide
/-- `{"x": {"preset": 5}}` : `six.iteritems(policy)` -/
theorem crash_preset_not_object :
    outcome (readPolicy liveTables (some (o [("x", o [("preset", .num 5)])]))) = some .attributeError := by decide
/-- `{"x": {"groups": [1]}}` : `six.iteritems(group_policies)` -/
theorem crash_groups_not_object :
    outcome (readPolicy liveTables (some (o [("x", o [("groups", .arr [.num 1])])]))) = some .attributeError := by decide
/-- `{"x": {"preset": {"SYMMETRIC_KEY": 5}}}` : `six.iteritems(operation_policies)` -/
theorem crash_operations_not_object :
    outcome (readPolicy liveTables (some (o [("x", o [("preset", o [("SYMMETRIC_KEY", .num 5)])])]))) = some .attributeError := by
  decide
/-- `{"x": {"preset": {}, "SYMMETRIC_KEY": {}}}` : `invalid_sections.pop()` on an empty set -/
theorem crash_mixed_sections :
    outcome (readPolicy liveTables (some (o [("x", o [("preset", o []), ("SYMMETRIC_KEY", o [])])]))) = some .keyError := by
  decide

/-- the mixed document is well-typed: `DocUnmixed` is needed -/
theorem mixed_document_is_typed : DocTyped liveTables (o [("x", o [("preset", o []), ("SYMMETRIC_KEY", o [])])]) := by
  refine ⟨_, rfl, ?_⟩
  intro e he
  simp only [List.mem_singleton] at he
  subst he
  refine ⟨_, rfl, ?_, ?_⟩
  · intro h; exact absurd (h "SYMMETRIC_KEY" (by simp [dkeys])) (by decide)
  · intro _ h; exact absurd (h "preset" (by simp [dkeys])) (by decide)

/-- the full totality statement is FALSE for the code as it is -/
theorem read_policy_total_fails_without_guard :
    ¬ (∀ j, (∃ r, readPolicy liveTables (some j) = .ok r) ∨ readPolicy liveTables (some j) = .error .reject) := by
  intro hall
  rcases hall (o [("x", .num 5)]) with ⟨r, h⟩ | h
  · have := crash_body_not_object; rw [h] at this; cases this
  · have := crash_body_not_object; rw [h] at this; cases this

/-! ### non-vacuity: every documented shape is accepted, every kind of unknown name is rejected -/

example : outcome (readPolicy liveTables (some (o [("a", o [("preset", goodTable)])]))) = none := by decide
example : outcome (readPolicy liveTables (some (o [("a", o [("groups", o [("g1", goodTable), ("g2", o [])])])]))) = none := by decide
example : outcome (readPolicy liveTables (some (o [("a", o [("preset", goodTable), ("groups", o [("g", goodTable)])]),
                                                     ("b", o []), ("c", goodTable)]))) = none := by decide
example : outcome (readPolicy liveTables (some (o []))) = none := by decide
/-- lenient: a falsy section value is read as "no such section" -/
example : outcome (readPolicy liveTables (some (o [("a", o [("preset", .null), ("groups", .num 0)])]))) = none := by decide
/-- unknown section -/
example : outcome (readPolicy liveTables (some (o [("a", o [("preset", goodTable), ("extras", o [])])]))) = some .reject := by decide
/-- unknown object type -/
example : outcome (readPolicy liveTables (some (o [("a", o [("preset", o [("QUANTUM_KEY", o [])])])]))) = some .reject := by decide
/-- unknown operation -/
example : outcome (readPolicy liveTables (some (o [("a", o [("preset", o [("SYMMETRIC_KEY", o [("FETCH", .str "ALLOW_ALL")])])])])))
    = some .reject := by decide
/-- unknown permission, and a permission that is not a string -/
example : outcome (readPolicy liveTables (some (o [("a", o [("preset", o [("SYMMETRIC_KEY", o [("GET", .str "ALLOW_SOME")])])])])))
    = some .reject := by decide
example : outcome (readPolicy liveTables (some (o [("a", o [("preset", o [("SYMMETRIC_KEY", o [("GET", .num 5)])])])])))
    = some .reject := by decide
/-- the first error wins: an invalid entry after a valid one rejects the whole file -/
example : outcome (readPolicy liveTables (some (o [("good", o [("preset", goodTable)]), ("bad", o [("extras", o [])])])))
    = some .reject := by decide
/-- `DocOK`, `DocTyped`, `DocUnmixed` are satisfiable together -/
example : DocOK liveTables (o [("a", o [])]) ∧ DocTyped liveTables (o [("a", o [])]) ∧ DocUnmixed liveTables (o [("a", o [])]) := by
  refine ⟨⟨_, rfl, ?_⟩, ⟨_, rfl, ?_⟩, ?_⟩
  · intro e he; simp only [List.mem_singleton] at he; subst he; exact ⟨[], rfl, Or.inl rfl⟩
  · intro e he; simp only [List.mem_singleton] at he; subst he
    exact ⟨[], rfl, fun _ => ⟨fun v h => (nomatch h), fun v h => (nomatch h)⟩, fun h => absurd (fun k hk => (nomatch hk)) h⟩
  · intro kvs hk e he
    cases hk
    simp only [List.mem_singleton] at he; subst he
    rintro ⟨kvs', h, hne, _⟩
    cases h; exact hne rfl

end Kmip.C18
