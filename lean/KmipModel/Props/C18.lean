/-
C18 — Policies in force follow the policy files; built-in policies are untouchable.

Model M6 (`KmipModel/Monitor.lean`): `scan` transcribes `PolicyDirectoryMonitor.scan_policies`,
`readPolicy` transcribes `read_policy_from_file` / `parse_policy`.  The declarative side
(`KmipModel/MonitorSpec.lean`): `specStore` — each name maps to the definition in the most
recently loaded file that still defines it — and `DocOK` — the documented file format.

What is proved (for the code as of /repo 72eead1, i.e. with both C18 repairs mirrored in the model)
  * `monitor_refines_spec`  the store after ANY well-formed history in which no read raised a non-ValueError
    exception equals `specStore`; `scan_ends_normally` no exception escapes on such histories.
  * `reserved_untouched`  for ALL histories (malformed snapshots and foreign exceptions included).
  * `bad_file_rejected_whole`, `scan_with_only_bad_files_changes_nothing`.
  * `scan_no_internal_failure`  on every path the only exception that can escape a scan is one raised by
    `read_policy_from_file`.
  * `read_policy_spec`  accepted ⇔ `DocOK`;  `invalid_document_rejected`;  `read_policy_total`  the parser
    returns or raises ValueError on every input.
History: before fixes 62efd90 / 72eead1 the refinement needed the guard "no file is reloaded without a name
while another file shadows it" (F-C18-a) and totality needed "well-typed, unmixed" (F-C18-b); the former
counterexamples are kept below as regression examples (`former_f_c18_a_history`, `formerly_crashing_*`).
-/
import KmipModel.Lemmas.Monitor
import KmipModel.Lemmas.PolicyFile
namespace Kmip.C18
open Kmip Kmip.Mon

/-! ## histories -/

/-- every listing names each file once and every successful read returned a dict -/
def HistWF (h : List DirSnapshot) : Prop := ∀ d ∈ h, d.WF
/-- no read raised anything but ValueError -/
def HistNoCrash (h : List DirSnapshot) : Prop := ∀ d ∈ h, d.NoCrash
instance (h : List DirSnapshot) : Decidable (HistWF h) := by unfold HistWF; infer_instance
instance (h : List DirSnapshot) : Decidable (HistNoCrash h) := by unfold HistNoCrash; infer_instance

/-! ### what the specification says (the property's sentence, clause by clause) -/

/-- "names no file defines are gone" -/
theorem spec_undefined_names_are_gone (R : List Name) (sp : SpecState) (p : Name) :
    specStore R sp p = none ↔ R.contains p = true ∨ ∀ e ∈ sp.loaded, dget e.2 p = none := by
  unfold specStore
  by_cases hR : R.contains p = true
  · rw [if_pos hR]; exact ⟨fun _ => Or.inl hR, fun _ => rfl⟩
  · simp only [hR, Bool.false_eq_true, if_false, false_or, Option.map_eq_none_iff, List.head?_eq_none_iff]
    simp only [definers, List.filterMap_eq_nil_iff, Option.map_eq_none_iff]

/-- "each policy name maps to the definition in the most recently loaded file that still defines it" -/
theorem spec_latest_loader_wins (R : List Name) (sp : SpecState) (p : Name) (newer older : List (File × List (Name × PolId)))
    (f : File) (defs : List (Name × PolId)) (d : PolId) (hR : R.contains p = false)
    (hl : sp.loaded = newer ++ (f, defs) :: older) (hnew : ∀ e ∈ newer, dget e.2 p = none) (hd : dget defs p = some d) :
    specStore R sp p = some d := by
  have h1 : definers p newer = [] := by
    simp only [definers, List.filterMap_eq_nil_iff, Option.map_eq_none_iff]; exact hnew
  simp only [specStore, hR, Bool.false_eq_true, if_false, hl, definers, List.filterMap_append, List.filterMap_cons, hd,
    Option.map_some]
  simp only [definers] at h1
  rw [h1]; rfl

/-- "an earlier definition reappears when the file shadowing it is removed …" -/
theorem spec_earlier_definition_reappears_on_removal (R : List Name) (sp : SpecState) (p : Name) (f g : File)
    (d d' : PolId) (rest : List (File × PolId)) (hR : R.contains p = false) (hfg : g ≠ f)
    (hd : definers p sp.loaded = (f, d) :: (g, d') :: rest) :
    specStore R sp p = some d ∧ specStore R (specRemove sp f) p = some d' := by
  constructor
  · simp only [specStore, hR, Bool.false_eq_true, if_false, hd]; rfl
  · simp only [specStore, hR, Bool.false_eq_true, if_false, specRemove]
    rw [definers_filter, hd]
    simp [hfg]

/-- "… or stops defining the name" -/
theorem spec_earlier_definition_reappears_on_drop (R : List Name) (snap : DirSnapshot) (sp : SpecState) (p : Name)
    (f g : File) (d d' : PolId) (rest : List (File × PolId)) (t ts : Nat) (defs : List (Name × PolId))
    (hR : R.contains p = false) (hfg : g ≠ f) (hd : definers p sp.loaded = (f, d) :: (g, d') :: rest)
    (hsnap : dget snap f = some (t, .ok defs)) (hseen : dget sp.seen f = some ts) (hnew : t > ts)
    (hdrop : dget defs p = none) :
    specStore R (specVisit R snap sp f) p = some d' := by
  simp only [specVisit, hsnap, hseen, hnew, if_true, specStore, hR, Bool.false_eq_true, if_false]
  rw [definers_cons, hdrop]
  simp only
  rw [definers_filter, hd]
  simp [hfg]

/-! ### the refinement -/

/-- **Refinement.**  After any well-formed history in which no read raised a foreign exception, every
reserved name still has its initial entry and every other name is in force exactly with the definition the
policy files give it: the definition in the most recently loaded file that still defines it; none if no file
defines it. -/
theorem monitor_refines_spec (R : List Name) (store0 : List (Name × PolId)) (h : List DirSnapshot)
    (hw : HistWF h) (hc : HistNoCrash h) (p : Name) :
    dget (run R store0 h).store p = if R.contains p then dget store0 p else specStore R (specRun R h) p := by
  have := (inv_run R store0 h _ _ (inv_init R store0) (by intro f hf; simp [MonState.init, dkeys] at hf)
    (fun d hd => ⟨hw d hd, hc d hd⟩)).1
  exact store_of_inv R store0 _ _ this p

/-- on such histories every scan ends normally (no exception escapes) -/
theorem scan_ends_normally (R : List Name) (store0 : List (Name × PolId)) (h : List DirSnapshot) (snap : DirSnapshot)
    (hw : HistWF (h ++ [snap])) (hc : HistNoCrash (h ++ [snap])) :
    ∃ s', scanE R (run R store0 h) snap = .ok s' := by
  obtain ⟨hi, hk⟩ := inv_run R store0 h _ _ (inv_init R store0) (by intro f hf; simp [MonState.init, dkeys] at hf)
    (fun d hd => ⟨hw d (List.mem_append_left _ hd), hc d (List.mem_append_left _ hd)⟩)
  obtain ⟨s', hs, _⟩ := inv_scan R store0 _ _ snap hi hk (hw snap (by simp)) (hc snap (by simp))
  exact ⟨s', hs⟩

/-- **No exception of the monitor's own making, on any path**: whatever the history (foreign exceptions
from reading a file included), the only exception that can escape the next scan is one that
`read_policy_from_file` raised — never the `None.append` of l.120, never a missing file. -/
theorem scan_no_internal_failure (R : List Name) (store0 : List (Name × PolId)) (h : List DirSnapshot) (snap : DirSnapshot)
    (hw : HistWF (h ++ [snap])) (s' : MonState) (e : Exn)
    (herr : scanE R (run R store0 h) snap = .error (s', e)) : ∃ cls, e = .parser cls := by
  have hrun := cinv_run R h _ (cinv_init R store0) (fun d hd => hw d (List.mem_append_left _ hd))
  have := cinv_scanE R _ snap (hw snap (by simp)) hrun
  unfold run at herr
  rw [herr] at this
  exact this.2

/-! ### the former F-C18-a history (regression example) -/

def R0 : List Name := ["default", "public"]
def store00 : List (Name × PolId) := [("default", 0), ("public", 1)]

/-- a.json and b.json both define `p` (b loaded last: b's definition 11 is in force); a.json is edited
and now defines only `q`; b.json is removed.  Before fix 62efd90 the monitor ended with `p ↦ 10`. -/
def former_f_c18_a_history : List DirSnapshot :=
  [ [("a.json", 10, .ok [("p", 10)]), ("b.json", 20, .ok [("p", 11)])],
    [("a.json", 30, .ok [("q", 12)]), ("b.json", 20, .ok [("p", 11)])],
    [("a.json", 30, .ok [("q", 12)])] ]

example : HistWF former_f_c18_a_history ∧ HistNoCrash former_f_c18_a_history ∧
    specStore R0 (specRun R0 former_f_c18_a_history) "p" = none ∧
    (run R0 store00 former_f_c18_a_history).store = [("default", 0), ("public", 1), ("q", 12)] := by
  decide

/-- the stale entry in the middle of a stack: a, b, c define `p`; b drops it while c shadows it; c is removed -/
example : (run R0 store00
    [ [("a.json", 10, .ok [("p", 10)])], [("a.json", 10, .ok [("p", 10)]), ("b.json", 20, .ok [("p", 11)])],
      [("a.json", 10, .ok [("p", 10)]), ("b.json", 20, .ok [("p", 11)]), ("c.json", 30, .ok [("p", 12)])],
      [("a.json", 10, .ok [("p", 10)]), ("b.json", 40, .ok []), ("c.json", 30, .ok [("p", 12)])],
      [("a.json", 10, .ok [("p", 10)]), ("b.json", 40, .ok [])] ]).store = [("default", 0), ("public", 1), ("p", 10)] := by
  decide

/-! ### reserved names -/

/-- **The built-in policies are never replaced or removed** — for all histories, without any assumption on
the snapshots (duplicate names, parser crashes, anything): a reserved name keeps the entry the server put
into the store, and never gets an owner file (so no later removal can touch it). -/
theorem reserved_untouched (R : List Name) (store0 : List (Name × PolId)) (h : List DirSnapshot) (p : Name)
    (hp : R.contains p = true) :
    dget (run R store0 h).store p = dget store0 p ∧ dget (run R store0 h).map p = none :=
  ⟨(rinv_run R store0 h p hp).2, (rinv_run R store0 h p hp).1⟩

/-- a file that defines a reserved name: the definition is thrown out, the rest of the file is loaded -/
example : (run R0 store00 [[("a.json", 10, .ok [("default", 7), ("p", 8)])]]).store
    = [("default", 0), ("public", 1), ("p", 8)] := by decide

/-! ### a file that is not a valid policy document -/

/-- **Rejected as a whole**: visiting a file whose read raises ValueError changes nothing but that file's
time stamp (and not even that when the mtime is not newer). -/
theorem bad_file_rejected_whole (R : List Name) (snap : DirSnapshot) (s : MonState) (f : File) (t ts : Nat)
    (hsnap : dget snap f = some (t, .rejected)) (hts : dget s.timestamps f = some ts) :
    visit R snap s f = .ok (if t > ts then { s with timestamps := dset s.timestamps f t } else s) := by
  unfold visit
  simp only [hsnap, hts]
  split <;> rfl

/-- the same seen from a whole scan: when the listing is unchanged and every file is either unchanged or
not a valid policy document, the scan ends normally and store, owner map and cache are exactly as before -/
theorem scan_with_only_bad_files_changes_nothing (R : List Name) (s : MonState) (snap : DirSnapshot)
    (hfiles : sortFiles (dkeys snap) = s.files)
    (hq : ∀ g, g ∈ dkeys s.timestamps →
      ∃ t pr ts, dget snap g = some (t, pr) ∧ dget s.timestamps g = some ts ∧ (t ≤ ts ∨ pr = .rejected)) :
    ∃ s', scanE R s snap = .ok s' ∧ s'.store = s.store ∧ s'.map = s.map ∧ s'.cache = s.cache :=
  let ⟨s', h, a, b, c, _⟩ := scan_quiet R s snap hfiles hq
  ⟨s', h, a, b, c⟩

/-! ### non-vacuity of the refinement hypotheses: shadowing, a broken file in between, restoration on drop,
removal -/

def goodHistory : List DirSnapshot :=
  [ [("a.json", 10, .ok [("p", 10), ("q", 13)]), ("b.json", 20, .ok [("p", 11)])],      -- b shadows a on p
    [("a.json", 10, .ok [("p", 10), ("q", 13)]), ("b.json", 30, .rejected)],             -- b broken: nothing moves
    [("a.json", 10, .ok [("p", 10), ("q", 13)]), ("b.json", 40, .ok [("r", 14)])],       -- b (owner) drops p: a's p is back
    [("b.json", 40, .ok [("r", 14)])] ]                                                  -- a removed: p, q gone

example : HistWF goodHistory ∧ HistNoCrash goodHistory := by decide
example : (run R0 store00 (goodHistory.take 1)).store = [("default", 0), ("public", 1), ("p", 11), ("q", 13)] := by decide
example : (run R0 store00 (goodHistory.take 2)).store = [("default", 0), ("public", 1), ("p", 11), ("q", 13)] := by decide
example : (run R0 store00 (goodHistory.take 3)).store = [("default", 0), ("public", 1), ("p", 10), ("q", 13), ("r", 14)] := by decide
example : (run R0 store00 goodHistory).store = [("default", 0), ("public", 1), ("r", 14)] := by decide
example : specStore R0 (specRun R0 (goodHistory.take 3)) "p" = some 10 := by decide

/-! ## policy documents -/

/-- **Accepted ⇔ documented shape.**  `read_policy_from_file` returns iff the document is a JSON object whose
values are policy bodies: empty, or sections `preset` / `groups` holding tables (a falsy section value counts
as absent), or object types at the top level; tables map known object types to known operations to known
permissions. -/
theorem read_policy_spec (T : NameTables) (j : J) : (∃ r, readPolicy T (some j) = .ok r) ↔ DocOK T j :=
  readPolicy_ok T j

/-- text that `json.loads` refuses is rejected (ValueError) -/
theorem bad_json_rejected (T : NameTables) : readPolicy T none = .error .reject := rfl

/-- **Totality**: on every input — any JSON value, and text that is not JSON — the parser returns or raises
ValueError, nothing else (so `scan_policies`, which catches ValueError, survives every file content). -/
theorem read_policy_total (T : NameTables) (doc : Option J) :
    (∃ r, readPolicy T doc = .ok r) ∨ readPolicy T doc = .error .reject := by
  cases h : readPolicy T doc with
  | ok r => exact Or.inl ⟨r, rfl⟩
  | error e => rw [readPolicy_onlyRejects T doc e h]; exact Or.inr rfl

/-- **Unknown object type / operation / permission / section, wrong-typed node ⇒ rejected**: a document that is
not in a documented shape raises ValueError. -/
theorem invalid_document_rejected (T : NameTables) (j : J) (hbad : ¬ DocOK T j) :
    readPolicy T (some j) = .error .reject := by
  rcases read_policy_total T (some j) with h | h
  · exact absurd ((read_policy_spec T j).mp h) hbad
  · exact h

/-- how a parse ended -/
def outcome {α} : Except PErr α → Option PErr
  | .ok _ => none
  | .error e => some e

/-- build a JSON object -/
abbrev o (kvs : List (String × J)) : J := .obj kvs
def goodTable : J := o [("SYMMETRIC_KEY", o [("GET", .str "ALLOW_ALL")])]

/-! ### the former F-C18-b inputs (regression examples): all rejected now -/

/-- `[1, 2]` -/
example : outcome (readPolicy liveTables (some (.arr [.num 1, .num 2]))) = some .reject := by decide
/-- `{"x": 5}` -/
example : outcome (readPolicy liveTables (some (o [("x", .num 5)]))) = some .reject := by decide
/-- `{"x": {"preset": 5}}` -/
example : outcome (readPolicy liveTables (some (o [("x", o [("preset", .num 5)])]))) = some .reject := by decide
/-- `{"x": {"groups": [1]}}` -/
example : outcome (readPolicy liveTables (some (o [("x", o [("groups", .arr [.num 1])])]))) = some .reject := by decide
/-- `{"x": {"preset": {"SYMMETRIC_KEY": 5}}}` -/
example : outcome (readPolicy liveTables (some (o [("x", o [("preset", o [("SYMMETRIC_KEY", .num 5)])])]))) = some .reject := by
  decide
/-- `{"x": {"preset": {}, "SYMMETRIC_KEY": {}}}` (sections mixed with object types) -/
example : outcome (readPolicy liveTables (some (o [("x", o [("preset", o []), ("SYMMETRIC_KEY", o [])])]))) = some .reject := by
  decide

/-! ### non-vacuity: every documented shape is accepted, every kind of unknown name is rejected -/

example : outcome (readPolicy liveTables (some (o [("a", o [("preset", goodTable)])]))) = none := by decide
example : outcome (readPolicy liveTables (some (o [("a", o [("groups", o [("g1", goodTable), ("g2", o [])])])]))) = none := by decide
example : outcome (readPolicy liveTables (some (o [("a", o [("preset", goodTable), ("groups", o [("g", goodTable)])]),
                                                     ("b", o []), ("c", goodTable)]))) = none := by decide
example : outcome (readPolicy liveTables (some (o []))) = none := by decide
/-- lenient: a falsy section value is read as "no such section" -/
example : outcome (readPolicy liveTables (some (o [("a", o [("preset", .null), ("groups", .num 0)])]))) = none := by decide
/-- unknown section -/
example : outcome (readPolicy liveTables (some (o [("a", o [("preset", goodTable), ("extras", o [])])]))) = some .reject := by decide
/-- unknown object type -/
example : outcome (readPolicy liveTables (some (o [("a", o [("preset", o [("QUANTUM_KEY", o [])])])]))) = some .reject := by decide
/-- unknown operation -/
example : outcome (readPolicy liveTables (some (o [("a", o [("preset", o [("SYMMETRIC_KEY", o [("FETCH", .str "ALLOW_ALL")])])])])))
    = some .reject := by decide
/-- unknown permission, and a permission that is not a string -/
example : outcome (readPolicy liveTables (some (o [("a", o [("preset", o [("SYMMETRIC_KEY", o [("GET", .str "ALLOW_SOME")])])])])))
    = some .reject := by decide
example : outcome (readPolicy liveTables (some (o [("a", o [("preset", o [("SYMMETRIC_KEY", o [("GET", .num 5)])])])])))
    = some .reject := by decide
/-- the first error wins: an invalid entry after a valid one rejects the whole file -/
example : outcome (readPolicy liveTables (some (o [("good", o [("preset", goodTable)]), ("bad", o [("extras", o [])])])))
    = some .reject := by decide
/-- `DocOK` is satisfiable, and not by everything -/
example : DocOK liveTables (o [("a", o [])]) := ⟨_, rfl, fun e he => by
  simp only [List.mem_singleton] at he; subst he; exact ⟨[], rfl, Or.inl rfl⟩⟩
example : ¬ DocOK liveTables (.num 5) := fun ⟨_, h, _⟩ => nomatch h

end Kmip.C18
