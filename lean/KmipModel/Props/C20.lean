/-
C20 — Secrets stay out of logs and error messages at the default log level.
PARTIAL: proved over the table of logger call sites regenerated from /repo (static
provenance of every formatted argument, conservative: anything not recognised is
`unknown` = possibly secret).  Text produced by third-party exceptions and the result
messages are covered by the dynamic canary runs only.
-/
import KmipModel.LogFlow
import KmipModel.Gen.Tables
namespace Kmip.C20
open Kmip Kmip.LogFlow

/-- **Table obligation (re-checked against /repo on every run)**: no logger call at INFO or
above formats a value whose provenance is key material, an object repr, a message
encoding, a credential — or anything the classifier does not recognise. -/
theorem no_tainted_at_info : Gen.logSites.all safeAtInfo = true := by decide +kernel

/-- the sites that do format secrets (message encodings) exist and are all below INFO -/
theorem tainted_sites_are_debug :
    (Gen.logSites.filter (fun s => s.argCodes.any secretClass)).all (fun s => s.level < infoLevel) = true ∧
    (Gen.logSites.filter (fun s => s.argCodes.any secretClass)).length > 0 := by decide +kernel

theorem list_ext_getElem? {α} (a b : List α) (hl : a.length = b.length) (h : ∀ i, i < a.length → a[i]? = b[i]?) : a = b := by
  apply List.ext_getElem? 
  intro i
  by_cases hi : i < a.length
  · exact h i hi
  · have h1 : a[i]? = none := by simp; omega
    have h2 : b[i]? = none := by simp; omega
    rw [h1, h2]

/-- **Log non-interference**: two executions that fire the same sites and differ only in
values of secret provenance emit exactly the same records at INFO and above, provided every
site is safe at INFO (the table obligation). -/
theorem log_noninterference (xs ys : List Firing)
    (hsafe : ∀ f ∈ xs, safeAtInfo f.site = true)
    (hrel : AllEquiv xs ys) :
    xs.map emitted = ys.map emitted := by
  induction hrel with
  | nil => rfl
  | @cons f g fs gs hfg _ ih =>
    have hs := hsafe f List.mem_cons_self
    have := ih (fun x hx => hsafe x (List.mem_cons_of_mem _ hx))
    simp only [List.map_cons, this]
    congr 1
    obtain ⟨hsite, hlen, hlen2, hvals⟩ := hfg
    unfold emitted
    rw [← hsite]
    by_cases hl : f.site.level ≥ infoLevel
    · simp only [hl, if_true]
      have hall : f.site.argCodes.all (fun c => !secretClass c) = true := by
        unfold safeAtInfo at hs
        have : ¬ (f.site.level < infoLevel) := by omega
        simpa [this] using hs
      have : f.vals = g.vals := by
        apply list_ext_getElem? _ _ hlen
        intro i hi
        apply hvals i hi
        have hi' : i < f.site.argCodes.length := by omega
        have := List.all_eq_true.mp hall (f.site.argCodes[i]) (List.getElem_mem hi')
        simp only [List.getD, List.getElem?_eq_getElem hi', Option.getD_some]
        simpa using this
      rw [this]
    · simp [hl]

/-- for the real table the hypothesis of `log_noninterference` holds for every site -/
theorem real_sites_safe : ∀ s ∈ Gen.logSites, safeAtInfo s = true :=
  fun s hs => List.all_eq_true.mp no_tainted_at_info s hs

/-! Non-vacuity -/
example : ∃ s ∈ Gen.logSites, s.level ≥ infoLevel ∧ s.argCodes ≠ [] := by
  refine ⟨(Gen.logSites.filter (fun s => s.level ≥ infoLevel && !s.argCodes.isEmpty)).head!, ?_, ?_⟩ <;> decide +kernel

end Kmip.C20
