/-
C03 (engine level) — an operation takes effect on, or reveals anything about, an
object only if granted; denial is masked as not-found; Locate lists only permitted
objects; the owner is the creating identity, forever.
The decision function itself is characterised in Props/C03.lean (`allowed_iff_grant`).
-/
import KmipModel.Lemmas.Evolve
import KmipModel.Props.C03
import KmipModel.Props.C07
namespace Kmip.C03
open Kmip

/-- the policy operation under which each object-addressing request is checked -/
def policyOp : Payload → Option Nat
  | .get .. => some Op.get
  | .getAttributes .. => some Op.getAttributes
  | .getAttributeList .. => some Op.getAttributeList
  | .activate .. => some Op.activate
  | .revoke .. => some Op.revoke
  | .destroy .. => some Op.destroy
  | .encrypt .. => some Op.get
  | .decrypt .. => some Op.get
  | .sign .. => some Op.get
  | .signatureVerify .. => some Op.get
  | .mac .. => some Op.get
  | .setAttribute .. => some Op.setAttribute
  | .modifyAttribute .. => some Op.modifyAttribute
  | .deleteAttribute .. => some Op.deleteAttribute
  | _ => none

/-- the identifier a request addresses (explicit, or the ID placeholder) -/
def target (e : Engine) : Payload → Option String
  | .get u .. => uidOr u e.placeholder
  | .getAttributes u _ => uidOr u e.placeholder
  | .getAttributeList u => uidOr u e.placeholder
  | .activate u => uidOrObj u e.placeholder
  | .revoke u _ => uidOrObj u e.placeholder
  | .destroy u => uidOrObj u e.placeholder
  | .encrypt u _ => uidOr u e.placeholder
  | .decrypt u _ => uidOr u e.placeholder
  | .sign u _ => uidOr u e.placeholder
  | .signatureVerify u _ => uidOr u e.placeholder
  | .mac u _ _ => uidOrObj u e.placeholder
  | .setAttribute u _ => uidOr u e.placeholder
  | .modifyAttribute u .. => uidOr u e.placeholder
  | .deleteAttribute u .. => uidOr u e.placeholder
  | _ => none

/-- **Nothing happens without a grant.** If an object-addressing operation succeeds
(returns data and/or changes the store), the addressed object exists and its
operation policy grants that operation to the requester (`allowed_iff_grant`). -/
theorem success_requires_grant {c : Ctx} {e : Engine} {it : Item} {eff : Effect} {d : Data} {op : Nat}
    (hop : policyOp it.payload = some op) (h : processOperation c e it = .ok (eff, d)) :
    ∃ o, e.store.lookup (target e it.payload) = some o ∧
      Grant c.policies o.policy e.identity o.owner o.otype op := by
  unfold processOperation at h
  split at h
  · inv h
  · split at h
    · inv h
    · split at h <;> rename_i hpay <;> rw [hpay] at hop ⊢ <;> simp only [policyOp, Option.some.injEq] at hop
      all_goals try (exact absurd hop (by simp))
      all_goals subst hop
      all_goals simp only [target]
      · unfold opGet at h; inv h
        obtain ⟨_, o, ho, _⟩ := h
        exact ⟨o, (getWithAccess_ok ho).1, (allowed_iff_grant ..).mp (getWithAccess_ok ho).2.2⟩
      · unfold opGetAttributes at h; inv h
        obtain ⟨o, ho, _⟩ := h
        exact ⟨o, (getWithAccess_ok ho).1, (allowed_iff_grant ..).mp (getWithAccess_ok ho).2.2⟩
      · unfold opGetAttributeList at h; inv h
        obtain ⟨o, ho, _⟩ := h
        exact ⟨o, (getWithAccess_ok ho).1, (allowed_iff_grant ..).mp (getWithAccess_ok ho).2.2⟩
      · unfold opActivate at h; inv h
        obtain ⟨o, ho, _⟩ := h
        exact ⟨o, (getWithAccess_ok ho).1, (allowed_iff_grant ..).mp (getWithAccess_ok ho).2.2⟩
      · unfold opRevoke at h
        split at h
        · inv h
        · inv h
          obtain ⟨o, ho, _⟩ := h
          exact ⟨o, (getWithAccess_ok ho).1, (allowed_iff_grant ..).mp (getWithAccess_ok ho).2.2⟩
      · unfold opDestroy at h; inv h
        obtain ⟨o, ho, _⟩ := h
        exact ⟨o, (getWithAccess_ok ho).1, (allowed_iff_grant ..).mp (getWithAccess_ok ho).2.2⟩
      · unfold opEncrypt cryptoGuard at h; inv h
        obtain ⟨_, ⟨o, ho, _⟩, _⟩ := h
        exact ⟨o, (getWithAccess_ok ho).1, (allowed_iff_grant ..).mp (getWithAccess_ok ho).2.2⟩
      · unfold opDecrypt cryptoGuard at h; inv h
        obtain ⟨_, ⟨o, ho, _⟩, _⟩ := h
        exact ⟨o, (getWithAccess_ok ho).1, (allowed_iff_grant ..).mp (getWithAccess_ok ho).2.2⟩
      · unfold opSign cryptoGuard at h; inv h
        obtain ⟨_, ⟨o, ho, _⟩, _⟩ := h
        exact ⟨o, (getWithAccess_ok ho).1, (allowed_iff_grant ..).mp (getWithAccess_ok ho).2.2⟩
      · unfold opSignatureVerify cryptoGuard at h; inv h
        obtain ⟨_, ⟨o, ho, _⟩, _⟩ := h
        exact ⟨o, (getWithAccess_ok ho).1, (allowed_iff_grant ..).mp (getWithAccess_ok ho).2.2⟩
      · unfold opMac at h; inv h
        obtain ⟨o, ho, _⟩ := h
        exact ⟨o, (getWithAccess_ok ho).1, (allowed_iff_grant ..).mp (getWithAccess_ok ho).2.2⟩
      · unfold opSetAttribute at h; inv h
        obtain ⟨o, ho, _⟩ := h
        exact ⟨o, (getWithAccess_ok ho).1, (allowed_iff_grant ..).mp (getWithAccess_ok ho).2.2⟩
      · unfold opModifyAttribute at h; inv h
        obtain ⟨o, ho, _⟩ := h
        exact ⟨o, (getWithAccess_ok ho).1, (allowed_iff_grant ..).mp (getWithAccess_ok ho).2.2⟩
      · unfold opDeleteAttribute at h; inv h
        obtain ⟨o, ho, _⟩ := h
        exact ⟨o, (getWithAccess_ok ho).1, (allowed_iff_grant ..).mp (getWithAccess_ok ho).2.2⟩

/-- Objects reached indirectly are checked as well: the wrapping key of a Get and every
base object of a DeriveKey must be readable (Get permission) by the requester. -/
theorem indirect_objects_require_grant {c : Ctx} {e : Engine} :
    (∀ o w cr tok, wrapGuards c e o w cr = .ok tok →
        ∃ ku key, w.encKeyUid = some ku ∧ key ∈ e.store.objs ∧
          Grant c.policies key.policy e.identity key.owner key.otype Op.get) ∧
    (∀ us bases, deriveBases c e us = .ok bases → ∀ b ∈ bases,
        b ∈ e.store.objs ∧ Grant c.policies b.policy e.identity b.owner b.otype Op.get) := by
  constructor
  · intro o w cr tok h
    unfold wrapGuards at h
    inv h
    obtain ⟨_, h⟩ := h
    split at h
    · rename_i ku hku
      inv h
      obtain ⟨key, hkey, _⟩ := h
      unfold getWrapKey at hkey
      split at hkey
      · rename_i k hk'
        inv hkey; subst hkey
        have hg := getWithAccess_ok hk'
        exact ⟨ku, k, hku, hg.2.1, (allowed_iff_grant ..).mp hg.2.2⟩
      · inv hkey
    · split at h <;> inv h
  · intro us
    induction us with
    | nil => intro bases h; simp [deriveBases, pure, Except.pure] at h; subst h; simp
    | cons u us ih =>
      intro bases h
      unfold deriveBases at h
      inv h
      obtain ⟨o, ho, _, h⟩ := h
      have hg := getWithAccess_ok ho
      split at h
      · inv h
      · inv h
        obtain ⟨_, rest, hrest, rfl⟩ := h
        intro b hb
        simp only [List.mem_cons] at hb
        rcases hb with rfl | hb
        · exact ⟨hg.2.1, (allowed_iff_grant ..).mp hg.2.2⟩
        · exact ih rest hrest b hb

/-- **Denial is masked as not-found.** Loading an object the requester is not granted
fails with Permission Denied whose text is exactly the text produced for an identifier
that does not exist (`C07.dead_not_found`) — nothing about the object is disclosed. -/
theorem denied_masked (c : Ctx) (e : Engine) (uid : Option String) (op : Nat) (o : Obj)
    (ho : e.store.lookup uid = some o)
    (hden : ¬ Grant c.policies o.policy e.identity o.owner o.otype op) :
    getWithAccess c e uid op = .error (.kmip Rsn.permissionDenied (notFoundMsg uid)) ∧
    (∀ e' : Engine, e'.store.lookup uid = none →
      ∃ r, getWithAccess c e' uid op = .error (.kmip r (notFoundMsg uid))) := by
  rw [← allowed_iff_grant] at hden
  constructor
  · simp [getWithAccess, ho, hden, kerr]
  · intro e' he'
    exact ⟨_, C07.dead_not_found c e' uid op he'⟩

/-- A denied (or failing) item changes nothing — by construction a failing handler has
no effect (`C08.failed_item_no_trace`), and a denied one fails: -/
theorem denied_no_effect {c : Ctx} {e : Engine} {it : Item} {op : Nat} {o : Obj}
    (hop : policyOp it.payload = some op)
    (ho : e.store.lookup (target e it.payload) = some o)
    (hden : ¬ Grant c.policies o.policy e.identity o.owner o.otype op) :
    ∃ err, processOperation c e it = .error err := by
  cases h : processOperation c e it with
  | error err => exact ⟨err, rfl⟩
  | ok r =>
    obtain ⟨eff, d⟩ := r
    obtain ⟨o', ho', hg⟩ := success_requires_grant hop h
    rw [ho] at ho'; cases ho'
    exact absurd hg hden

/-- Locate never lists an object the requester may not locate. -/
theorem locate_only_permitted (c : Ctx) (e : Engine) (m o : Option Int) (as : List TAttr) (eff : Effect)
    (us : List String) (h : opLocate c e m o as = .ok (eff, .uids us)) :
    ∀ s ∈ us, ∃ x ∈ e.store.objs, s = toString x.uid ∧
      Grant c.policies x.policy e.identity x.owner x.otype Op.locate := by
  intro s hs
  obtain ⟨x, hx, hsx, ha⟩ := C07.locate_only_live c e m o as eff us h s hs
  exact ⟨x, hx, hsx, (allowed_iff_grant ..).mp ha⟩

/-- **The owner is the creating identity, forever**: (i) a created object is owned by
the requester of the creating item; (ii) no history changes the owner of a stored object. -/
theorem owner_is_creator {c : Ctx} {e : Engine} {it : Item} {os : List Obj} {d : Data}
    (hr : RulesProtect c) (h : processOperation c e it = .ok (.insert os, d)) :
    ∀ o ∈ os, o.owner = e.identity.user := by
  have hs := processOperation_spec hr h
  generalize it.payload.op = op at hs
  cases hs with
  | insert _ _ hos => exact fun o ho => (hos o ho).1

theorem owner_immutable (steps : List Step) (hok : StepsOk steps) (e0 : Engine)
    (hi : e0.store.Inv) (hs : e0.store.StatesOk) :
    ∀ o ∈ e0.store.objs, ∀ o' ∈ (run e0 steps).store.objs, o'.uid = o.uid → o'.owner = o.owner :=
  fun o ho o' ho' hu => ((run_evolves e0 steps hok hi hs).persist o ho o' ho' hu).owner

end Kmip.C03
