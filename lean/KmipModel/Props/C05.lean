/-
C05 — Stored objects come back exactly as stored.

(i)  M13: the key wrapping data dictionary survives flattening into columns and the
     `any(...)`-based reconstruction exactly when it is `Normal`; witnesses for the rest.
(ii) M5: Register-then-Get fidelity of type, value bytes, algorithm, length, key format
     and type-specific field, at any later time (any history, any restarts).
The wire hop is C01's round-trip; client and SQLite hops are tied by the end-to-end
correspondence (real ProxyKmipClient → encoded bytes → engine → SQLite file → fresh engine).
-/
import KmipModel.Convert
import KmipModel.Lemmas.Evolve
namespace Kmip.C05
open Kmip Kmip.Convert

theorem cpColumns_some (l : List FV) (h : l.length = 13) : cpColumns (some l) = l := by simp [cpColumns, h]

theorem anyTruthy_noneCp : anyTruthy noneCp = false := by decide

theorem keyInfo_roundtrip (k : KeyInfo) (h : k.Normal) :
    keyInfoOf k.uid (cpColumns k.cp) = some k := by
  obtain ⟨uid, cp⟩ := k
  cases cp with
  | none =>
    simp only [KeyInfo.Normal] at h
    have hu : uid.truthy = true := by simpa using h.2
    simp [keyInfoOf, cpColumns, anyTruthy_noneCp, hu]
  | some l =>
    simp only [KeyInfo.Normal] at h
    simp [keyInfoOf, cpColumns_some l h.1.1, h.1.2]

theorem keyInfo_absent : keyInfoOf .none noneCp = none := by decide

/-- **Wrapping data fidelity**: a normal key wrapping data dictionary is returned exactly. -/
theorem wrapping_roundtrip (w : WrapDict) (h : w.Normal) : fromColumns (toColumns (some w)) = some w := by
  obtain ⟨method, eki, mski, macSig, iv, encoding⟩ := w
  obtain ⟨he, hm, hany⟩ := h
  simp only at he hm hany
  have hany' : (method.truthy || eki.isSome || mski.isSome || macSig.truthy || iv.truthy || encoding.truthy) = true := by
    rcases hany with h | h | h | h | h | h <;> simp [h]
  cases eki with
  | none =>
    cases mski with
    | none =>
      simp only [toColumns, fromColumns, keyInfo_absent]
      simp only [Option.isSome_none, Bool.or_false] at hany' ⊢
      simp [hany']
    | some k2 =>
      simp only [toColumns, fromColumns, keyInfo_absent, keyInfo_roundtrip k2 hm]; simp
  | some k1 =>
    cases mski with
    | none => simp only [toColumns, fromColumns, keyInfo_absent, keyInfo_roundtrip k1 he]; simp
    | some k2 =>
      simp only [toColumns, fromColumns, keyInfo_roundtrip k1 he, keyInfo_roundtrip k2 hm]; simp

/-- absent wrapping data stays absent -/
theorem wrapping_absent : fromColumns (toColumns none) = none := by decide

/-- F-C05-b (witness): cryptographic parameters whose only set members are falsy
(`random_iv = False`, `iv_length = 0`) are dropped by the reconstruction. -/
def falsyCp : List FV := [.none, .none, .none, .none, .none, .none, .bool false, .int 0, .none, .none, .none, .none, .none]
theorem falsy_parameters_dropped :
    fromColumns (toColumns (some ⟨.enum 1, some ⟨.text "7", some falsyCp⟩, none, .none, .none, .none⟩))
      = some ⟨.enum 1, some ⟨.text "7", none⟩, none, .none, .none, .none⟩ := by decide

/-! ### Register → Get -/

theorem setSingle_keeps_alg {o o' : Obj} {n : String} {v : AVal} (ha : o.alg.isSome = true)
    (h : setSingle o n v = .ok o') : o'.alg = o.alg := by
  unfold setSingle at h
  split_all h
  all_goals first
    | (simp [kerr, ierr] at h; done)
    | (simp only [pure, Except.pure, Except.ok.injEq] at h; subst h; rfl)
    | (simp only [pure, Except.pure, Except.ok.injEq] at h; subst h; simp_all)

theorem setSingle_keeps_len {o o' : Obj} {n : String} {v : AVal} (l : Nat) (hl : o.len = some l) (hl0 : l ≠ 0)
    (h : setSingle o n v = .ok o') : o'.len = o.len := by
  unfold setSingle at h
  split_all h
  all_goals first
    | (simp [kerr, ierr] at h; done)
    | (simp only [pure, Except.pure, Except.ok.injEq] at h; subst h; rfl)
    | (simp only [pure, Except.pure, Except.ok.injEq] at h; subst h; simp_all)

theorem setMulti_keeps {o o' : Obj} {n : String} {vs : List AVal} (h : setMulti o n vs = .ok o') :
    o'.alg = o.alg ∧ o'.len = o.len := by
  unfold setMulti at h
  split_all h
  all_goals first
    | (simp [kerr, ierr] at h; done)
    | (simp only [pure, Except.pure, Except.ok.injEq] at h; subst h; exact ⟨rfl, rfl⟩)

theorem setAttrs_keeps_key_fields {c : Ctx} {d : AttrDict} {o o' : Obj} (l : Nat)
    (ha : o.alg.isSome = true) (hl : o.len = some l) (hl0 : l ≠ 0)
    (h : setAttrs c o d = .ok o') : o'.alg = o.alg ∧ o'.len = o.len := by
  unfold setAttrs at h
  induction d generalizing o with
  | nil => simp [List.foldlM, pure, Except.pure] at h; subst h; exact ⟨rfl, rfl⟩
  | cons kv rest ih =>
    simp only [List.foldlM] at h
    inv h
    obtain ⟨o1, h1, h2⟩ := h
    obtain ⟨app, _, _, h1⟩ := h1
    unfold setAttr at h1
    inv h1
    obtain ⟨mv, _, h1⟩ := h1
    have hk : o1.alg = o.alg ∧ o1.len = o.len := by
      split at h1
      · split at h1
        · exact setMulti_keeps h1
        · inv h1
      · split at h1
        · exact ⟨setSingle_keeps_alg ha h1, setSingle_keeps_len l hl hl0 h1⟩
        · inv h1
    have := ih (o := o1) (by rw [hk.1]; exact ha) (by rw [hk.2]; exact hl) h2
    exact ⟨this.1.trans hk.1, this.2.trans hk.2⟩

/-- **Register stores exactly what was registered**: type, value bytes, key format,
type-specific field always; algorithm and length for keys (whatever the template says). -/
theorem register_stores_exactly {c : Ctx} {e : Engine} {ot : Nat} {t : Option Template} {ro : RegObj}
    {eff : Effect} {d : Data} (h : opRegister c e ot t (some ro) = .ok (eff, d)) :
    ∃ o, eff = .insert [o] ∧ o.otype = ro.otype ∧ o.value = ro.value ∧ o.format = ro.format ∧
      o.subtype = ro.subtype ∧
      (∀ l, ro.alg.isSome = true → ro.len = some l → l ≠ 0 → o.alg = ro.alg ∧ o.len = ro.len) := by
  unfold opRegister at h
  inv h
  obtain ⟨_, dd, hd, _, _, o1, hset, rfl, _⟩ := h
  have hc := setAttrs_core hset
  refine ⟨finalize c e o1, rfl, ?_, ?_, ?_, ?_, ?_⟩
  · show o1.otype = _; rw [hc.otype]; rfl
  · show o1.value = _; rw [hc.value]; rfl
  · show o1.format = _; rw [hc.format]
  · show o1.subtype = _; rw [hc.subtype]
  · intro l ha hl hl0
    have := setAttrs_keeps_key_fields l (o := { newObj ro.otype ro.value with alg := ro.alg, len := ro.len, format := ro.format, subtype := ro.subtype })
      ha hl hl0 hset
    exact ⟨this.1, this.2⟩

/-- **Get returns exactly the stored fields.** (SecretData's key format is reported as
Opaque whatever was registered: F-C05-a, see the witness below.) -/
theorem get_returns_stored {c : Ctx} {e : Engine} {u : Option String} {cr : Crypto} {eff : Effect} {d : Data}
    (h : opGet c e u none false none cr = .ok (eff, d)) :
    ∃ o ∈ e.store.objs, e.store.lookup (uidOr u e.placeholder) = some o ∧
      ((o.isKey = true ∧ d = .object o.otype (showUid (uidOr u e.placeholder)) o.value o.alg o.len o.format none false) ∨
       (o.otype = OT.secretData ∧ d = .object o.otype (showUid (uidOr u e.placeholder)) o.value none none (some 2) o.subtype false) ∨
       ((o.otype = OT.certificate ∨ o.otype = OT.opaqueData) ∧
          d = .object o.otype (showUid (uidOr u e.placeholder)) o.value none none none o.subtype false)) := by
  unfold opGet at h
  inv h
  obtain ⟨_, o, ho, _, _, dd, hcore, _, rfl⟩ := h
  have hg := getWithAccess_ok ho
  refine ⟨o, hg.2.1, hg.1, ?_⟩
  unfold coreObject at hcore
  split at hcore
  · rename_i hco
    inv hcore; subst hcore
    right; right
    exact ⟨by simpa using hco, rfl⟩
  · split at hcore
    · rename_i hs
      inv hcore; subst hcore
      right; left
      exact ⟨by simpa using hs, rfl⟩
    · split at hcore
      · rename_i hk
        inv hcore; subst hcore
        left; exact ⟨hk, rfl⟩
      · inv hcore

/-- **At any later time, including after restarts**: the fields Get reports never change
over any history (value bytes, type, algorithm, length, format, type-specific field). -/
theorem stored_fields_persist (steps : List Step) (hok : StepsOk steps) (e0 : Engine)
    (hi : e0.store.Inv) (hs : e0.store.StatesOk) :
    ∀ o ∈ e0.store.objs, ∀ o' ∈ (run e0 steps).store.objs, o'.uid = o.uid →
      o'.otype = o.otype ∧ o'.value = o.value ∧ o'.alg = o.alg ∧ o'.len = o.len ∧ o'.format = o.format ∧
      o'.subtype = o.subtype ∧ o'.isKey = o.isKey := by
  intro o ho o' ho' hu
  have p := (run_evolves e0 steps hok hi hs).persist o ho o' ho' hu
  exact ⟨p.otype, p.value, p.alg, p.len, p.format, p.subtype, p.isKey⟩

/-- server-assigned attributes of a new object: owner, initial date, default policy name (for a request that did not
set the name: one that set it to the EMPTY text stores the empty text - `policyGiven`; found by the end-to-end
correspondence in round 8, modelled since round 11), Pre-Active -/
theorem server_assigned (c : Ctx) (e : Engine) (o : Obj) :
    (finalize c e o).owner = e.identity.user ∧ (finalize c e o).initialDate = c.now ∧
    (o.policy = "" → o.policyGiven = false → (finalize c e o).policy = "default") ∧
    (o.policyGiven = true → (finalize c e o).policy = o.policy) ∧
    (finalize c e o).policyGiven = false ∧ (finalize c e o).state = o.state := by
  refine ⟨rfl, rfl, ?_, ?_, rfl, rfl⟩
  · intro h h'; simp [finalize, h, h']
  · intro h; simp [finalize, h]

/-- a freshly constructed object carries no policy name of the request -/
theorem new_object_policy_not_given (t : Nat) (v : String) : (newObj t v).policy = "" ∧ (newObj t v).policyGiven = false :=
  ⟨rfl, rfl⟩

/-- F-C05-a (witness): a SecretData object is always reported with key format Opaque. -/
theorem secret_data_format_opaque (o : Obj) (h : o.otype = OT.secretData) (v u : String) (w : Bool) :
    coreObject o v w u = .ok (.object o.otype u v none none (some 2) o.subtype w) := by
  unfold coreObject
  simp [h, OT.secretData, OT.certificate, OT.opaqueData, pure, Except.pure]

/-! Non-vacuity -/
example : (⟨.enum 1, some ⟨.text "7", some (falsyCp.set 0 (.enum 2))⟩, none, .bytes "00", .none, .enum 1⟩ : WrapDict).Normal := by
  refine ⟨⟨⟨by decide, by decide⟩, by decide⟩, trivial, by decide⟩

end Kmip.C05
