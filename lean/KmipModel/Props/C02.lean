/-
C02 — everything emitted is specification-conformant TTLV.

`WF` (KmipModel/TTLV.lean) is well-formedness stated from the specification text (§9.1) with no reference to
the encoder or decoder.  Proved here: everything `encode` produces is `WF`; everything the strict decoder
accepts is `WF` (so "the Lean parser accepted these bytes with no residue", which the harness checks for every
byte string /repo emits, implies well-formedness); the Python primitive encoders (M2) produce exactly the
specification encoding — canonical, Big Integers at their minimal length — on every value they accept (the
former exception, Big Integer −2^(64k−1) written with eight redundant sign bytes, is repaired in /repo); the
type codes and envelope tags the specification side uses are the ones in the
code's tables (regenerated from /repo on every run).

The envelope half of the property is `Kmip.Envelope.faults` (an executable predicate on parsed trees) which
the harness evaluates on every response a real KmipSession sends.
-/
import KmipModel.Lemmas.TTLVItem
import KmipModel.Lemmas.Prim
import KmipModel.Envelope
import KmipModel.Gen.Tables
namespace Kmip.C02
open Kmip.TTLV Kmip.Prim

/-! ### M1 -/

/-- **Everything the encoder emits is well-formed**: header sizes, big-endian length, value zero-padded to a
multiple of 8, structure length = total size of its children, mandated lengths of the fixed-size types. -/
theorem encode_wellformed (i : Item) (hv : i.Valid) : WF (encode i) := enc_wf i hv

theorem encodeList_wellformed (ks : List Item) (hv : validList ks) : WFList (encodeList ks) := encs_wf ks hv

/-- **Soundness of the strict decoder**: the prefix it consumed is a well-formed item. -/
theorem decode_sound (f : Nat) (bs : Bytes) (i : Item) (rest : Bytes) (h : decode f bs = some (i, rest)) :
    ∃ pre, bs = pre ++ rest ∧ WF pre := by
  obtain ⟨hv, hbs⟩ := (dec_inv f).1 bs i rest h
  exact ⟨encode i, hbs, enc_wf i hv⟩

/-- a byte string accepted as a whole (no residue) is one well-formed item -/
theorem decodeAll_sound (bs : Bytes) (i : Item) (h : decodeAll bs = some i) : WF bs := by
  unfold decodeAll at h
  split at h
  · rename_i i' hd
    obtain ⟨hv, hbs⟩ := (dec_inv _).1 bs i' [] hd
    rw [List.append_nil] at hbs
    rw [hbs]; exact enc_wf i' hv
  · cases h

/-- **Completeness of the strict decoder**: every well-formed byte string is accepted as a whole — so the
decoder accepts EXACTLY the well-formed items (`decodeAll_sound` is the other direction), and
"accepted by the Lean parser" is neither weaker nor stronger than `WF`. -/
theorem wellformed_accepted (bs : Bytes) (h : WF bs) : ∃ i, decodeAll bs = some i := by
  obtain ⟨i, hv, he⟩ := wf_is_encoding bs h
  refine ⟨i, ?_⟩
  rw [← he]
  unfold decodeAll
  have := dec_enc i hv (encode i).length [] (Nat.le_refl _)
  rw [List.append_nil] at this
  rw [this]

theorem wellformed_iff_accepted (bs : Bytes) : WF bs ↔ ∃ i, decodeAll bs = some i :=
  ⟨wellformed_accepted bs, fun ⟨i, h⟩ => decodeAll_sound bs i h⟩

/-- the structure length field counts exactly the bytes of the children and every item occupies a multiple
of 8 bytes (a consequence of the padding rule that the specification states separately) -/
theorem encode_length_mul8 : ∀ (i : Item), (encode i).length % 8 = 0 := by
  have key : (∀ i : Item, (encode i).length % 8 = 0) ∧ (∀ ks : List Item, (encodeList ks).length % 8 = 0) := by
    refine ⟨fun i => ?_, fun ks => ?_⟩
    · exact Item.rec (motive_1 := fun i => (encode i).length % 8 = 0)
        (motive_2 := fun ks => (encodeList ks).length % 8 = 0)
        (fun t v => by
          simp only [encode, List.length_append, header_length, zeros_length]
          have := padLen_add v.valBytes.length; omega)
        (fun t ks ih => by simp only [encode, List.length_append, header_length]; omega)
        (by simp [encodeList])
        (fun i is h1 h2 => by simp only [encodeList, List.length_append]; omega) i
    · exact Item.rec_1 (motive_1 := fun i => (encode i).length % 8 = 0)
        (motive_2 := fun ks => (encodeList ks).length % 8 = 0)
        (fun t v => by
          simp only [encode, List.length_append, header_length, zeros_length]
          have := padLen_add v.valBytes.length; omega)
        (fun t ks ih => by simp only [encode, List.length_append, header_length]; omega)
        (by simp [encodeList])
        (fun i is h1 h2 => by simp only [encodeList, List.length_append]; omega) ks
  exact key.1

/-! ### M2 against M1 -/

/-- the specification's reading of a Python primitive value -/
def specOf (v : PyVal) : PVal := toSpec v

/-- **Python primitive encoders = specification encoder**, on every value `write` accepts, with no exception. -/
theorem py_prim_eq_spec (tag : Nat) (v : PyVal) (bs : Bytes) (h : pyEncode tag v = .ok bs) :
    bs = encode (.prim tag (specOf v)) := by
  have he : v.encodable := by
    apply Classical.byContradiction
    intro hn
    obtain ⟨e, hee⟩ := pyEncode_err tag v hn
    rw [hee] at h; cases h
  rw [pyEncode_eq tag v he] at h
  cases h
  rfl

/-- … and that encoding is the canonical one: a Big Integer is written at the specification's minimal length
(`bigLen`, the smallest multiple of 8 bytes in which the value fits — `bigLen_least`) -/
theorem py_prim_canonical (v : PyVal) : (specOf v).minimal = true := toSpec_minimal v

theorem py_bigint_minimal (v : Int) : pyBigLen v = bigLen v := pyBigLen_eq_bigLen v

/-- `bigLen` is the least length: the value fits, and does not fit in one 8-byte group less -/
theorem bigLen_least (v : Int) : fitsTC (bigLen v) v ∧ (8 < bigLen v → ¬ fitsTC (bigLen v - 8) v) :=
  ⟨fits_bigLen v, bigLen_minimal v⟩

/-- F-C02-a repaired: `BigInteger(-2**63)` takes 8 value bytes -/
theorem py_bigint_boundary : pyBigLen (-9223372036854775808) = 8 ∧ pyBigLen (-9223372036854775809) = 16 ∧
    pyBigLen 9223372036854775807 = 8 ∧ pyBigLen 9223372036854775808 = 16 := by
  refine ⟨?_, ?_, ?_, ?_⟩ <;> decide +kernel

/-- whatever a Python primitive encoder emits is well-formed TTLV (the redundant sign bytes included) -/
theorem py_prim_wellformed (tag : Nat) (v : PyVal) (bs : Bytes) (ht : tagOk tag = true)
    (h : pyEncode tag v = .ok bs) : WF bs := by
  have he : v.encodable := by
    apply Classical.byContradiction
    intro hn
    obtain ⟨e, hee⟩ := pyEncode_err tag v hn
    rw [hee] at h; cases h
  rw [pyEncode_eq tag v he] at h
  cases h
  apply enc_wf
  simp only [Item.Valid]
  exact ⟨ht, toSpec_valid v he⟩

/-- the two-byte UTF-8 text "é" is a valid item for M1 and is what `TextString('é').write` emits
(C01 `textString_nonascii_roundtrip`) -/
example : (Item.prim 0x42007D (.textString [0xC3, 0xA9])).Valid := validB_sound _ (by decide +kernel)

/-! ### the constants of the specification side are the ones the code uses -/

/-- item type codes of §9.1.1.2 = `enums.Types` of /repo (regenerated on every run) -/
theorem types_match_spec :
    Gen.enumTypes = [("DEFAULT", 0), ("STRUCTURE", 1), ("INTEGER", 2), ("LONG_INTEGER", 3), ("BIG_INTEGER", 4),
      ("ENUMERATION", 5), ("BOOLEAN", 6), ("TEXT_STRING", 7), ("BYTE_STRING", 8), ("DATE_TIME", 9),
      ("INTERVAL", 10)] := by decide +kernel

/-- every tag the code can write is a standard 42xxxx tag -/
theorem all_tags_standard : Gen.enumTags.all (fun p => tagOk p.2) = true := by decide +kernel

/-- the envelope tags of the specification = `enums.Tags` of /repo -/
theorem tags_match_spec :
    [Gen.enumTags.lookup "RESPONSE_MESSAGE", Gen.enumTags.lookup "RESPONSE_HEADER",
     Gen.enumTags.lookup "PROTOCOL_VERSION", Gen.enumTags.lookup "PROTOCOL_VERSION_MAJOR",
     Gen.enumTags.lookup "PROTOCOL_VERSION_MINOR", Gen.enumTags.lookup "TIME_STAMP",
     Gen.enumTags.lookup "BATCH_COUNT", Gen.enumTags.lookup "BATCH_ITEM",
     Gen.enumTags.lookup "RESULT_STATUS", Gen.enumTags.lookup "RESULT_REASON",
     Gen.enumTags.lookup "RESULT_MESSAGE", Gen.enumTags.lookup "REQUEST_MESSAGE",
     Gen.enumTags.lookup "REQUEST_HEADER", Gen.enumTags.lookup "OPERATION",
     Gen.enumTags.lookup "UNIQUE_BATCH_ITEM_ID", Gen.enumTags.lookup "RESPONSE_PAYLOAD",
     Gen.enumTags.lookup "REQUEST_PAYLOAD"] =
    [some Envelope.tResponseMessage, some Envelope.tResponseHeader, some Envelope.tProtocolVersion,
     some Envelope.tProtocolVersionMajor, some Envelope.tProtocolVersionMinor, some Envelope.tTimeStamp,
     some Envelope.tBatchCount, some Envelope.tBatchItem, some Envelope.tResultStatus,
     some Envelope.tResultReason, some Envelope.tResultMessage, some Envelope.tRequestMessage,
     some Envelope.tRequestHeader, some Envelope.tOperation, some Envelope.tUniqueBatchItemID,
     some Envelope.tResponsePayload, some Envelope.tRequestPayload] := by decide +kernel

/-- Result Status Success is 0 in the code as in the specification (the envelope predicate tests `st = 0`) -/
theorem success_is_zero : Gen.enumResultStatus.lookup "SUCCESS" = some 0 := by decide +kernel

/-! ### the envelope of what the engine composes -/

/-- a handler's payload is a Response Payload structure -/
def payloadOk (r : Envelope.ItemResult) : Prop :=
  match r.outcome with
  | .success p => Envelope.Item.tag p = Envelope.tResponsePayload
  | .failure st _ _ => st ≠ 0

theorem tag_prim (t : Nat) (v : PVal) : Envelope.Item.tag (.prim t v) = t := rfl
theorem tag_struct (t : Nat) (ks : List Item) : Envelope.Item.tag (.struct t ks) = t := rfl

theorem item_envelope (r : Envelope.ItemResult) (h : payloadOk r) :
    Envelope.itemFaults (Envelope.buildItem r) = [] := by
  obtain ⟨op, bid, out⟩ := r
  cases out with
  | success p =>
    simp only [payloadOk] at h
    cases op <;> cases bid <;>
      simp [Envelope.itemFaults, Envelope.buildItem, Envelope.optItem, Envelope.find, Envelope.count,
        Envelope.enumOf, tag_prim, h, Envelope.tBatchItem, Envelope.tResultStatus, Envelope.tResultReason,
        Envelope.tResultMessage, Envelope.tOperation, Envelope.tUniqueBatchItemID, Envelope.tResponsePayload]
  | failure st rs msg =>
    simp only [payloadOk] at h
    cases op <;> cases bid <;>
      simp [Envelope.itemFaults, Envelope.buildItem, Envelope.optItem, Envelope.find, Envelope.count,
        Envelope.enumOf, tag_prim, h, Envelope.tBatchItem, Envelope.tResultStatus, Envelope.tResultReason,
        Envelope.tResultMessage, Envelope.tOperation, Envelope.tUniqueBatchItemID]

/-- **Response envelope** of the composition `_process_batch` + `_build_response` (as transcribed in
`Kmip.Envelope.buildResponse`): whatever the items' outcomes, the response carries the request's protocol
version, a time stamp, a batch count equal to the number of items, and every item has a result status, with
reason and message exactly when it is not Success. -/
theorem response_envelope (ver : Int × Int) (now : Int) (items : List Envelope.ItemResult)
    (h : ∀ r ∈ items, payloadOk r) :
    Envelope.faults (some ver) (Envelope.buildResponse ver now items) = [] := by
  simp [Envelope.faults, Envelope.buildResponse, Envelope.find, Envelope.kidsOf, Envelope.intOf, tag_prim, tag_struct,
    Envelope.tResponseMessage, Envelope.tResponseHeader, Envelope.tProtocolVersion,
    Envelope.tProtocolVersionMajor, Envelope.tProtocolVersionMinor, Envelope.tTimeStamp, Envelope.tBatchCount]
  intro a ha
  exact item_envelope a (h a ha)

/-- the error responses of the session (parse failure, authentication failure, oversize replacement,
unsupported version) are built by `build_error_response` -/
theorem error_response_envelope (ver : Int × Int) (now : Int) (reason : Nat) (msg : Bytes) :
    Envelope.faults (some ver) (Envelope.buildErrorResponse ver now reason msg) = [] :=
  response_envelope ver now _ (by intro r hr; simp at hr; subst hr; simp [payloadOk])

/-! ### non-vacuity -/

/-- a conforming error response has no faults; dropping the message, or a wrong count, is reported -/
def okResponse (reason message : Bool) (count : Int) : Item :=
  .struct 0x42007B [
    .struct 0x42007A [
      .struct 0x420069 [.prim 0x42006A (.integer 1), .prim 0x42006B (.integer 2)],
      .prim 0x420092 (.dateTime 1000),
      .prim 0x42000D (.integer count)],
    .struct 0x42000F ([.prim 0x42007F (.enumeration 1)] ++
      (if reason then [.prim 0x42007E (.enumeration 1)] else []) ++
      (if message then [.prim 0x42007D (.textString [0x78])] else []))]

example : Envelope.faults (some (1, 2)) (okResponse true true 1) = [] := by decide +kernel
example : Envelope.faults (some (1, 2)) (okResponse true false 1) = ["message-missing"] := by decide +kernel
example : Envelope.faults (some (1, 4)) (okResponse true true 2) = ["version-not-echoed", "batch-count-mismatch"] := by
  decide +kernel
example : WF (encode (okResponse true true 1)) := encode_wellformed _ (validB_sound _ (by decide +kernel))

end Kmip.C02
