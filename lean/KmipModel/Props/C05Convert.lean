/-
C05 (conversion hops) — the three object conversions around the engine model compose to the identity.

  Register:  core ──coreToPie──▶ pie ──(attributes)──▶ pie₁ ──pieToRow──▶ rows
  Get:       rows ──rowToPie──▶ pie₂ ──engineBuildCore──▶ core₂ ──(wire, C01)──▶ client: coreToPie ──▶ pie₃

(i)   `row_roundtrip`: what is read back from the rows is the object stored, usage masks as a set in bit order,
      an absent policy name as `'default'` (`mask_roundtrip`, `enum_roundtrip`, `cols_roundtrip`).
(ii)  `pie_core_roundtrip` / `core_pie_roundtrip`: the object factory's two directions are inverse to each other up
      to stated normalisations (what the pie classes cannot hold), with witnesses.
(iii) `register_get_conversion_fidelity`: Register-conversion ; database ; Get-conversion returns the registered
      secret up to `engineNorm`, which is the identity on `Storable` secrets (`register_get_exact`); whatever
      Register's conversion accepts can be stored (`registered_object_is_storable`); every excluded
      point has a witness theorem, and the real code was run at each of them (harness/lib/convert_objects_check.py
      counts them as `characterised:*`).
(iv)  `client_server_same_conversion`: the client's conversion of what Get built is the stored object;
      `engine_eq_factory`: where `_build_core_object` and `ObjectFactory.convert` agree, and where they do not.
Model: `KmipModel/ConvertObjects.lean`, notions: `KmipModel/ConvertObjectsSpec.lean`; every hop of the real code is
compared with the model on every run (correspondence).
-/
import KmipModel.Lemmas.ConvertObjects
set_option linter.unusedSimpArgs false
namespace Kmip.C05Convert
open Kmip.Convert Kmip.ConvObj

/-! ## (i) the database hop -/

/-- **`enum_roundtrip`**: an enumeration column returns the member stored, and `None` (stored as −1) as `None` -/
theorem enum_roundtrip (v : Option Nat) : decEnum (encEnum v) = v := ConvObj.enum_roundtrip v

/-- `None` in an enumeration column is the integer −1, and −1 is read back as `None` (witness) -/
theorem enum_null_is_minus_one : encEnum none = -1 ∧ decEnum (-1) = none := by decide

/-- **`mask_roundtrip`**: the usage mask column returns the members of the stored list, each once, in bit order -/
theorem mask_roundtrip (l : List Nat) (hl : ∀ m ∈ l, m ∈ maskBits) :
    decMask (encMask l) = maskBits.filter (fun b => l.contains b) := ConvObj.mask_roundtrip l hl

/-- as sets, the masks read back are the masks stored -/
theorem mask_roundtrip_set (l : List Nat) (hl : ∀ m ∈ l, m ∈ maskBits) (m : Nat) :
    m ∈ decMask (encMask l) ↔ m ∈ l := ConvObj.mask_roundtrip_mem l hl m

/-- order and duplicates of the mask list are not representable in the column (witness) -/
theorem mask_order_and_duplicates_lost : decMask (encMask [8, 4, 8]) = [4, 8] := by decide
/-- every bit and no bit -/
theorem mask_all_bits : decMask (encMask maskBits) = maskBits := by decide
theorem mask_no_bits : decMask (encMask []) = [] := by decide

/-- **`cols_roundtrip`**: the 32 key wrapping columns (14 of them enumeration columns) return what was stored;
with `C05.wrapping_roundtrip` the `key_wrapping_data` property read after the load is the one read before -/
theorem cols_roundtrip (c : Columns) (h : colsTyped c = true) : decCols (encCols c) = c := ConvObj.cols_roundtrip c h

theorem wrapping_survives_database (c : Columns) (h : colsTyped c = true) :
    fromColumns (decCols (encCols c)) = fromColumns c := by rw [ConvObj.cols_roundtrip c h]

/-- **the rows hold the object**: reading back what the INSERTs wrote gives the stored object, with the usage
masks in bit order without duplicates and the policy name defaulted -/
theorem row_roundtrip_exact (p : PieObj) (hwf : PieWf p) : rowToPie (rowOf p) = dbNorm p := by
  obtain ⟨spec, ot, value, names, ni, policy, sens, date, owner⟩ := p
  cases spec with
  | certificate cr t =>
    have hm := pieWf_masks hwf (cr := cr) rfl
    simp [rowToPie, rowOf, dbNorm, PieSpecific.mapCrypto, enum_roundtrip, names_roundtrip, crypto_roundtrip cr hm]
  | key cr kk k =>
    have hm := pieWf_masks hwf (cr := cr) rfl
    have hk := pieWf_cols hwf (k := k) rfl
    simp [rowToPie, rowOf, dbNorm, PieSpecific.mapCrypto, enum_roundtrip, names_roundtrip, crypto_roundtrip cr hm,
      key_roundtrip k hk]
  | splitKey cr k s =>
    have hm := pieWf_masks hwf (cr := cr) rfl
    have hk := pieWf_cols hwf (k := k) rfl
    simp [rowToPie, rowOf, dbNorm, PieSpecific.mapCrypto, enum_roundtrip, names_roundtrip, crypto_roundtrip cr hm,
      key_roundtrip k hk, split_roundtrip]
  | secretData cr t =>
    have hm := pieWf_masks hwf (cr := cr) rfl
    simp [rowToPie, rowOf, dbNorm, PieSpecific.mapCrypto, enum_roundtrip, names_roundtrip, crypto_roundtrip cr hm]
  | opaqueObj t =>
    simp [rowToPie, rowOf, dbNorm, PieSpecific.mapCrypto, enum_roundtrip, names_roundtrip]


/-- **`row_roundtrip`**: an object that could be stored is read back equal, usage masks compared as sets -/
theorem row_roundtrip (p : PieObj) (hwf : PieWf p) (r : Row) (h : pieToRow p = .ok r) : DbEq p (rowToPie r) := by
  rw [pieToRow_ok h, row_roundtrip_exact p hwf]
  exact dbNorm_dbEq p hwf

/-- no policy name is stored as the column default (witness) -/
theorem policy_defaulted (p : PieObj) (h : p.policy = none) : (rowToPie (rowOf p)).policy = some "default" := by
  simp [rowToPie, rowOf, h]

/-! ## (ii) the object factory's two directions -/

/-- **`pie_core_roundtrip`** (pie → core → pie): converting a pie object the constructor accepted to a core secret and
back gives the object again, with the constructor defaults in the attribute part (the factory carries no names, masks,
state: the client sends them as attributes) and the key wrapping columns as the property reads them.  `Complete`
follows from `PieOk` for every class but `SplitKey` (`complete_of_pieOk`). -/
theorem pie_core_roundtrip (p : PieObj) (hok : PieOk p) (hwf : PieWf p) (hcomp : Complete p) (c : CoreObj)
    (h : pieToCore p = .ok c) : coreToPie c = .ok (fresh p) := by
  obtain ⟨spec, ot, value, names, ni, policy, sens, date, owner⟩ := p
  cases value with
  | none => simp [Complete] at hcomp
  | some v =>
  cases spec with
  | certificate cr t =>
    simp [PieOk, pieOk, PieObj.kind, PieSpecific.kind] at hok
    obtain ⟨hot, ht⟩ := hok
    subst ht
    simp [pieToCore, pure, Except.pure] at h
    subst h
    simp [coreToPie, fresh, freshPie, PieSpecific.mapCrypto, PieSpecific.mapKey, pure, Except.pure, PieSpecific.kind]
  | key cr kk k => exact pie_core_roundtrip_key cr kk k ot v names ni policy sens date owner hok hwf c h
  | splitKey cr k s =>
    have hcols := pieWf_cols hwf (k := k) rfl
    obtain ⟨hl1, hl2⟩ := colsTyped_lengths hcols
    simp only [Complete, PieSpecific.key?] at hcomp
    obtain ⟨_, ha, hl, hf⟩ := hcomp
    obtain ⟨a, ha⟩ := Option.isSome_iff_exists.mp ha
    obtain ⟨l, hl⟩ := Option.isSome_iff_exists.mp hl
    obtain ⟨f, hf⟩ := Option.isSome_iff_exists.mp hf
    simp only [PieOk, pieOk, Bool.and_eq_true] at hok
    have hprime := (isOk_match _).mp hok.2
    simp only [pieToCore, factoryKeyBlock, bind_ok', pure_ok'] at h
    obtain ⟨kb, ⟨_, _, _, _, rfl⟩, _, _, rfl⟩ := h
    simp [coreToPie, keyBlock, ha, hl, hf, materialValue, fldValue, optFld, fresh, hprime,
      normCols, PieSpecific.mapCrypto, PieSpecific.mapKey, pure, Except.pure, bind, Except.bind]
  | secretData cr t =>
    simp only [PieOk, pieOk, PieObj.kind, PieSpecific.kind, Bool.and_eq_true, beq_iff_eq] at hok
    obtain ⟨t', ht⟩ := Option.isSome_iff_exists.mp hok.2
    subst ht
    simp only [pieToCore, pure_ok'] at h
    subst h
    simp [coreToPie, materialValue, keyBlock, fldValue, optFld, fresh, PieSpecific.mapCrypto, PieSpecific.mapKey, pure,
      Except.pure, bind, Except.bind]
  | opaqueObj t =>
    simp only [PieOk, pieOk, PieObj.kind, PieSpecific.kind, Bool.and_eq_true, beq_iff_eq] at hok
    obtain ⟨t', ht⟩ := Option.isSome_iff_exists.mp hok.2
    subst ht
    simp only [pieToCore, pure_ok'] at h
    subst h
    simp [coreToPie, fldValue, optFld, fresh, PieSpecific.mapCrypto, PieSpecific.mapKey, pure,
      Except.pure, bind, Except.bind]

/-- **`core_pie_roundtrip`** (core → pie → core): what the pie classes cannot hold is lost, nothing else
(`factoryNorm`: key compression type, attributes inside the key value, key wrapping data outside its normal form;
for Secret Data the whole key block except the bytes) -/
theorem core_pie_roundtrip (c : CoreObj) (hwf : CoreWf c) (p : PieObj) (h : coreToPie c = .ok p) :
    pieToCore p = .ok (factoryNorm c) := by
  cases c with
  | certificate t v =>
    simp only [coreToPie] at h
    split at h
    · rename_i ht
      have ht' : t = certX509 := by simpa using ht
      subst ht'
      simp only [pure_ok'] at h
      subst h
      simp [pieToCore, freshPie, factoryNorm, pure, Except.pure]
    · simp [typeErr] at h
  | key kk kb => exact core_pie_roundtrip_key kk kb hwf p h
  | splitKey s kb? =>
    obtain ⟨kb, alg, len, value, format, n, rfl, ealg, elen, efmt, hkv, _, rfl⟩ := coreToPie_splitKey_ok h
    · simp only [CoreWf, coreChecks, bind_ok'] at hwf
      obtain ⟨_, hkb, hs⟩ := hwf
      obtain ⟨hlen, hwrap⟩ := kbChecks_ok hkb
      have hwrap' := chkWrap?_norm hwrap
      cases len with
      | none =>
        have hl' : kb.len = .unset := elen.symm
        simp [pieToCore, freshPie, factoryKeyBlock, hwrap', chkInteger_zero, hs, bind, Except.bind, pure, Except.pure,
          factoryNorm, normKb, hkv, ealg, efmt, hl']
      | some l =>
        have hl' : kb.len = .val l := elen.symm
        simp [pieToCore, freshPie, factoryKeyBlock, hwrap', hlen l hl', hs, bind, Except.bind, pure, Except.pure,
          factoryNorm, normKb, hkv, ealg, efmt, hl']
  | secretData t kb? =>
    obtain ⟨kb, t', value, n, rfl, rfl, hkv, hw, rfl⟩ := coreToPie_secretData_ok h
    simp [pieToCore, freshPie, factoryNorm, secretKb, hkv, hw, optFld, pure, Except.pure]
  | opaqueObj t v =>
    simp only [coreToPie, bind_ok'] at h
    obtain ⟨t', ht, h⟩ := h
    have et := optFld_of_fldValue ht
    cases v with
    | none => simp [attrErr] at h
    | some v =>
      cases t' with
      | none => simp [typeErr] at h
      | some t' =>
        simp only [pure_ok'] at h
        subst h
        simp [pieToCore, freshPie, factoryNorm, et, pure, Except.pure]



/-- on `Storable` secrets the factory's round trip is exact -/
theorem factoryNorm_storable (c : CoreObj) (h : Storable c) : factoryNorm c = c := by
  cases c with
  | certificate t v => rfl
  | key kk kb => cases kb with
    | none => rfl
    | some kb => simp only [factoryNorm, Option.map_some, normKb_storable kb h]
  | splitKey s kb => cases kb with
    | none => rfl
    | some kb => simp only [factoryNorm, Option.map_some, normKb_storable kb h]
  | secretData t kb => cases kb with
    | none => rfl
    | some kb => simp only [factoryNorm, Option.map_some, secretKb_storable kb h]
  | opaqueObj t v => rfl

theorem core_pie_roundtrip_exact (c : CoreObj) (hwf : CoreWf c) (hs : Storable c) (p : PieObj)
    (h : coreToPie c = .ok p) : pieToCore p = .ok c := by
  rw [core_pie_roundtrip c hwf p h, factoryNorm_storable c hs]

/-! ## (iii) Register ; database ; Get -/

theorem engine_of_coreToPie (c : CoreObj) (hwf : CoreWf c) (p : PieObj) (h : coreToPie c = .ok p) :
    engineBuildCore p = .ok (engineNorm c) := by
  cases c with
  | certificate t v =>
    simp only [coreToPie] at h
    split at h
    · rename_i ht
      have ht' : t = certX509 := by simpa using ht
      subst ht'
      simp only [pure_ok'] at h
      subst h
      simp [engineBuildCore, PieObj.kind, PieSpecific.kind, freshPie, engineKeyBlock, chkInteger?, chkWrap?, engineNorm, pure, Except.pure]
    · simp [typeErr] at h
  | key kk kb => exact engine_of_coreToPie_key kk kb hwf p h
  | splitKey s kb? =>
    obtain ⟨kb, alg, len, value, format, n, rfl, ealg, elen, efmt, hkv, _, rfl⟩ := coreToPie_splitKey_ok h
    · simp only [CoreWf, coreChecks, bind_ok'] at hwf
      obtain ⟨_, hkb, hs⟩ := hwf
      obtain ⟨hlen, hwrap⟩ := kbChecks_ok hkb
      have hwrap' := chkWrap?_norm hwrap
      cases len with
      | none =>
        have hl' : kb.len = .unset := elen.symm
        simp [engineBuildCore, PieObj.kind, PieSpecific.kind, freshPie, engineKeyBlock, chkInteger?, hwrap', chkInteger_zero, hs, bind, Except.bind, pure, Except.pure,
          engineNorm, engineKb, normKb, hkv, efmt, hl']
        rw [← ealg]; cases alg <;> rfl
      | some l =>
        have hl' : kb.len = .val l := elen.symm
        simp [engineBuildCore, PieObj.kind, PieSpecific.kind, freshPie, engineKeyBlock, chkInteger?, hwrap', hlen l hl', hs, bind, Except.bind, pure, Except.pure,
          engineNorm, engineKb, normKb, hkv, efmt, hl']
        rw [← ealg]; cases alg <;> rfl
  | secretData t kb? =>
    obtain ⟨kb, t', value, n, rfl, rfl, hkv, hw, rfl⟩ := coreToPie_secretData_ok h
    simp [engineBuildCore, PieObj.kind, PieSpecific.kind, freshPie, engineKeyBlock, chkInteger?, chkWrap?, engineNorm,
      secretKb, hkv, hw, pure, Except.pure, bind, Except.bind, optFld]
  | opaqueObj t v =>
    simp only [coreToPie, bind_ok'] at h
    obtain ⟨t', ht, h⟩ := h
    have et := optFld_of_fldValue ht
    cases v with
    | none => simp [attrErr] at h
    | some v =>
      cases t' with
      | none => simp [typeErr] at h
      | some t' =>
        simp only [pure_ok'] at h
        subst h
        simp [engineBuildCore, PieObj.kind, PieSpecific.kind, freshPie, engineKeyBlock, chkInteger?, chkWrap?, engineNorm, et, pure, Except.pure]



/-- **`register_get_conversion_fidelity`**: Register converts the secret `c` to the pie object `p`
(`ObjectFactory.convert`), the server sets whatever attributes `a` on it, the rows are written and read back in a
later session, and Get converts the loaded object with `_build_core_object`: the result is `c` up to `engineNorm`.
Any later change of the attribute part (names, masks, state, policy, dates) is covered by the quantifier over `a`. -/
theorem register_get_conversion_fidelity (c : CoreObj) (hwf : CoreWf c) (p : PieObj) (hp : coreToPie c = .ok p)
    (a : Attrs) (ha : ∀ m ∈ a.masks, m ∈ maskBits) (r : Row) (hr : pieToRow (withAttrs p a) = .ok r) :
    engineBuildCore (rowToPie r) = .ok (engineNorm c) := by
  have hwf' : PieWf (withAttrs p a) := pieWf_withAttrs p a ha (coreToPie_cols c hwf p hp)
  rw [pieToRow_ok hr, row_roundtrip_exact _ hwf', engineBuildCore_attrs]
  exact engine_of_coreToPie c hwf p hp

/-- on `Storable` secrets nothing is normalised away -/
theorem engineNorm_storable (c : CoreObj) (h : Storable c) : engineNorm c = c := by
  cases c with
  | certificate t v => rfl
  | key kk kb => cases kb with
    | none => rfl
    | some kb => simp only [engineNorm, Option.map_some, engineKb_storable kb h]
  | splitKey s kb => cases kb with
    | none => rfl
    | some kb => simp only [engineNorm, Option.map_some, engineKb_storable kb h]
  | secretData t kb => cases kb with
    | none => rfl
    | some kb => simp only [engineNorm, Option.map_some, secretKb_storable kb h]
  | opaqueObj t v => rfl

/-- **exact fidelity**: a `Storable` secret that was registered is what Get's conversion builds: type, value bytes,
algorithm, length, key format, key wrapping data and the type-specific fields -/
theorem register_get_exact (c : CoreObj) (hwf : CoreWf c) (hs : Storable c) (p : PieObj) (hp : coreToPie c = .ok p)
    (a : Attrs) (ha : ∀ m ∈ a.masks, m ∈ maskBits) (r : Row) (hr : pieToRow (withAttrs p a) = .ok r) :
    engineBuildCore (rowToPie r) = .ok c := by
  rw [register_get_conversion_fidelity c hwf p hp a ha r hr, engineNorm_storable c hs]

/-- **everything Register's conversion accepts can be stored** (after the repair 8b96c42; before it a Split Key with a
prime field size beyond 64 bits was accepted and the commit failed) -/
theorem registered_object_is_storable (c : CoreObj) (hwf : CoreWf c) (p : PieObj) (hp : coreToPie c = .ok p)
    (a : Attrs) (ha : AttrsFit a) : pieToRow (withAttrs p a) = .ok (rowOf (withAttrs p a)) := by
  have hs : chkSpec64 (withAttrs p a).spec = .ok () := by
    show chkSpec64 (p.spec.mapCrypto _) = .ok ()
    rw [chkSpec64_mapCrypto]; exact coreToPie_spec64 c hwf p hp
  obtain ⟨h1, h2, h3⟩ := ha
  simp only [pieToRow, chkStorable, bind_ok', pure_ok']
  exact ⟨(), ⟨(), h1, (), h2, (), h3, hs⟩, trivial⟩

/-- **Register ; database ; Get, without assuming that the store succeeds**: a `Storable` secret the factory accepts
is stored, and Get's conversion of what is loaded later is the registered secret -/
theorem register_get_exact_total (c : CoreObj) (hwf : CoreWf c) (hs : Storable c) (p : PieObj) (hp : coreToPie c = .ok p)
    (a : Attrs) (ha : ∀ m ∈ a.masks, m ∈ maskBits) (hfit : AttrsFit a) :
    (pieToRow (withAttrs p a) >>= fun r => engineBuildCore (rowToPie r)) = .ok c := by
  rw [registered_object_is_storable c hwf p hp a hfit]
  exact register_get_exact c hwf hs p hp a ha _ (registered_object_is_storable c hwf p hp a hfit)

/-! ## (iv) the client -/

/-- `PieOk` implies `Complete` for every class whose constructor validates (all but `SplitKey`) -/
theorem complete_of_pieOk (p : PieObj) (h : PieOk p) (hk : p.kind ≠ .splitKey) : Complete p := by
  obtain ⟨spec, ot, value, names, ni, policy, sens, date, owner⟩ := p
  cases value with
  | none => cases spec <;> first | (exact absurd rfl hk) | (simp [PieOk, pieOk] at h)
  | some v =>
    cases spec with
    | key cr kk k =>
      simp only [PieOk, pieOk, Bool.and_eq_true] at h
      obtain ⟨_, hv, hf⟩ := h
      replace hv := (isOk_match _).mp hv
      obtain ⟨a, l, ha, hl⟩ := validateKey_ok_some hv
      refine ⟨rfl, ?_⟩
      simp only [PieSpecific.key?, ha, hl, Option.isSome_some, true_and]
      cases kk with
      | symmetric =>
        have : k.format = some fmtRaw := by simpa using hf
        simp [this]
      | publicKey => exact validateKey_format hv (by decide)
      | privateKey => exact validateKey_format hv (by decide)
    | splitKey cr k s => exact absurd rfl hk
    | certificate cr t => exact ⟨rfl, trivial⟩
    | secretData cr t => exact ⟨rfl, trivial⟩
    | opaqueObj t => exact ⟨rfl, trivial⟩

/-- **where the two pie → core conversions agree**: on a complete object, `_build_core_object` (Get) and
`ObjectFactory.convert` (the client's Register) build the same secret -/
theorem engine_eq_factory (p : PieObj) (hot : p.objectType = some p.kind.objectType) (hc : Complete p) (c : CoreObj) :
    engineBuildCore p = .ok c ↔ pieToCore p = .ok c := by
  obtain ⟨spec, ot, value, names, ni, policy, sens, date, owner⟩ := p
  simp only [PieObj.kind] at hot
  subst hot
  cases value with
  | none => simp [Complete] at hc
  | some v =>
    cases spec with
    | certificate cr t => simp [engineBuildCore, pieToCore, PieObj.kind]
    | secretData cr t =>
      simp [engineBuildCore, pieToCore, PieObj.kind, engineKeyBlock, chkInteger?, chkWrap?, optFld, bind, Except.bind,
        pure, Except.pure]
    | opaqueObj t => simp [engineBuildCore, pieToCore, PieObj.kind]
    | key cr kk k =>
      simp only [Complete, PieSpecific.key?] at hc
      obtain ⟨_, ha, hl, hf⟩ := hc
      obtain ⟨a, ha⟩ := Option.isSome_iff_exists.mp ha
      obtain ⟨l, hl⟩ := Option.isSome_iff_exists.mp hl
      obtain ⟨f, hf⟩ := Option.isSome_iff_exists.mp hf
      simp only [engineBuildCore, pieToCore, PieObj.kind, engineKeyBlock, factoryKeyBlock, ha, hl, hf, chkInteger?,
        bne_self_eq_false, Bool.false_eq_true, if_false, bind_ok', pure_ok', Option.getD_some, optFld]
      constructor
      · rintro ⟨kb, ⟨_, h1, _, h2, rfl⟩, rfl⟩; exact ⟨_, ⟨(), h2, (), h1, rfl⟩, rfl⟩
      · rintro ⟨kb, ⟨_, h1, _, h2, rfl⟩, rfl⟩; exact ⟨_, ⟨(), h2, (), h1, rfl⟩, rfl⟩
    | splitKey cr k s =>
      simp only [Complete, PieSpecific.key?] at hc
      obtain ⟨_, ha, hl, hf⟩ := hc
      obtain ⟨a, ha⟩ := Option.isSome_iff_exists.mp ha
      obtain ⟨l, hl⟩ := Option.isSome_iff_exists.mp hl
      obtain ⟨f, hf⟩ := Option.isSome_iff_exists.mp hf
      simp only [engineBuildCore, pieToCore, PieObj.kind, engineKeyBlock, factoryKeyBlock, ha, hl, hf, chkInteger?,
        bne_self_eq_false, Bool.false_eq_true, if_false, bind_ok', pure_ok', Option.getD_some, optFld]
      constructor
      · rintro ⟨kb, ⟨_, h1, _, h2, rfl⟩, _, h3, rfl⟩; exact ⟨_, ⟨(), h2, (), h1, rfl⟩, (), h3, rfl⟩
      · rintro ⟨kb, ⟨_, h1, _, h2, rfl⟩, _, h3, rfl⟩; exact ⟨_, ⟨(), h2, (), h1, rfl⟩, (), h3, rfl⟩

/-- **`client_server_same_conversion`**: what the client's `ObjectFactory.convert` makes of the secret Get built
from the stored object `p` is `p` itself (attribute part at the constructor defaults: attributes travel by
GetAttributes) -/
theorem client_server_same_conversion (p : PieObj) (hok : PieOk p) (hwf : PieWf p) (hcomp : Complete p) (c : CoreObj)
    (h : engineBuildCore p = .ok c) : coreToPie c = .ok (fresh p) :=
  pie_core_roundtrip p hok hwf hcomp c ((engine_eq_factory p (pieOk_objectType hok) hcomp c).mp h)

/-- **Register, database, Get, client**: for a `Storable` secret the client ends with exactly the pie object the
server built at Register -/
theorem client_sees_registered_object (c : CoreObj) (hwf : CoreWf c) (hs : Storable c) (p : PieObj)
    (hp : coreToPie c = .ok p) (a : Attrs) (ha : ∀ m ∈ a.masks, m ∈ maskBits) (r : Row)
    (hr : pieToRow (withAttrs p a) = .ok r) : engineBuildCore (rowToPie r) >>= coreToPie = .ok p := by
  rw [register_get_exact c hwf hs p hp a ha r hr]
  exact hp


/-! ## characterised exceptions: each with a concrete secret (the real code was run on every one of them) -/

def aesBytes : String := "000102030405060708090a0b0c0d0e0f"
/-- a plain AES-128 key block -/
def kbAes : CoreKeyBlock :=
  { format := .val fmtRaw, compression := none, keyValue := some ⟨.bytes aesBytes, 0⟩, alg := .val 3,
    len := .val 128, wrapping := none }
def noAttrs : Attrs := ⟨[], 1, none, false, 0, none, [], some 1⟩
/-- the attributes a Register typically leaves: two names, an owner, a date, Encrypt|Decrypt given out of order -/
def someAttrs : Attrs :=
  ⟨[⟨"k1", 1, some 1⟩, ⟨"k2", 2, some 1⟩], 3, none, false, 1700000000, some "alice", [8, 4], some 1⟩

/-- the whole path Register-conversion ; attributes ; rows ; load ; Get-conversion -/
def storeAndGet (c : CoreObj) (a : Attrs) : C CoreObj := do
  let p ← coreToPie c
  let r ← pieToRow (withAttrs p a)
  engineBuildCore (rowToPie r)

/-- F-C05-a: Secret Data registered with key format Raw is returned with key format Opaque -/
def secretRaw : CoreObj :=
  .secretData (.val 1) (some { format := .val fmtRaw, compression := none, keyValue := some ⟨.bytes "70617373", 0⟩,
                               alg := .absent, len := .absent, wrapping := none })
theorem secret_data_format_reported_opaque :
    storeAndGet secretRaw someAttrs = .ok (.secretData (.val 1)
      (some { format := .val fmtOpaque, compression := none, keyValue := some ⟨.bytes "70617373", 0⟩,
              alg := .absent, len := .absent, wrapping := none })) ∧ ¬ Storable secretRaw := by
  refine ⟨rfl, ?_⟩
  intro h; exact absurd h.1 (by decide)

/-- Secret Data registered with an algorithm and a length in its key block is returned without them -/
def secretWithLength : CoreObj :=
  .secretData (.val 1) (some { format := .val fmtOpaque, compression := none, keyValue := some ⟨.bytes "70617373", 0⟩,
                               alg := .val 3, len := .val 32, wrapping := none })
theorem secret_data_algorithm_length_dropped :
    storeAndGet secretWithLength noAttrs = .ok (.secretData (.val 1)
      (some { format := .val fmtOpaque, compression := none, keyValue := some ⟨.bytes "70617373", 0⟩,
              alg := .absent, len := .absent, wrapping := none })) ∧ ¬ Storable secretWithLength := by
  refine ⟨rfl, ?_⟩
  intro h; exact absurd h.2.2.2.1 (by decide)

/-- a wrapped Secret Data is refused at Register (`TypeError`, answered Invalid Field).  Before the repair 683f968 its
bytes were stored without the key wrapping data, which the pie class cannot hold, and returned as the plain secret
(signature `c05:secret-data-wrapping-data-dropped`, now a monitor of the correspondence check). -/
def wrapEncrypt : WrapDict := ⟨.enum 1, some ⟨.text "7", none⟩, none, .none, .none, .none⟩
def secretWrapped : CoreObj :=
  .secretData (.val 1) (some { format := .val fmtOpaque, compression := none, keyValue := some ⟨.bytes "70617373", 0⟩,
                               alg := .absent, len := .absent, wrapping := some wrapEncrypt })
theorem wrapped_secret_data_refused :
    CoreWf secretWrapped ∧
    coreToPie secretWrapped = .error ⟨.typeError, "core key wrapping data not compatible with Pie SecretData"⟩ :=
  ⟨rfl, rfl⟩

/-- F-C05-b: key wrapping data whose cryptographic parameters are all falsy (`random_iv = False`, `iv_length = 0`)
comes back without the parameters -/
def keyFalsyParams : CoreObj :=
  .key .symmetric (some { kbAes with wrapping := some ⟨.enum 1, some ⟨.text "7", some Kmip.C05.falsyCp⟩, none, .none, .none, .none⟩ })
theorem falsy_wrapping_parameters_dropped :
    storeAndGet keyFalsyParams noAttrs =
      .ok (.key .symmetric (some { kbAes with wrapping := some ⟨.enum 1, some ⟨.text "7", none⟩, none, .none, .none, .none⟩ })) := rfl

/-- a key registered with a key compression type is returned without it -/
def keyCompressed : CoreObj := .key .publicKey (some { kbAes with format := .val fmtX509, compression := some 2 })
theorem key_compression_type_dropped :
    storeAndGet keyCompressed noAttrs = .ok (.key .publicKey (some { kbAes with format := .val fmtX509 })) := rfl

/-- attributes inside the key value are not stored -/
def keyWithValueAttributes : CoreObj := .key .symmetric (some { kbAes with keyValue := some ⟨.bytes aesBytes, 2⟩ })
theorem key_value_attributes_dropped :
    storeAndGet keyWithValueAttributes noAttrs = .ok (.key .symmetric (some kbAes)) := rfl

/-- a transparent key (structured key material) is refused: the factory reads `key_material.value` -/
theorem transparent_key_material_refused :
    coreToPie (.key .symmetric (some { kbAes with keyValue := some ⟨.struct, 0⟩ })) =
      .error ⟨.attributeError, "object has no attribute"⟩ := rfl

/-- a Split Key whose prime field size does not fit a signed 64 bit integer (the `BigInteger` column is a SQLite
INTEGER) is refused at Register (`ValueError` of the pie setter, answered Invalid Field).  Before the repair 8b96c42
it passed every conversion and the commit failed (General Failure; signature
`c05:split-key-prime-field-size-not-storable`, now a monitor of the correspondence check). -/
def splitBigPrime : CoreObj := .splitKey ⟨some 3, some 1, some 2, some 2, some (2 ^ 64 + 13)⟩ (some kbAes)
theorem split_key_prime_field_size_refused :
    CoreWf splitBigPrime ∧
    coreToPie splitBigPrime = .error ⟨.valueError, "The prime field size must fit in a 64-bit signed integer."⟩ :=
  ⟨rfl, rfl⟩
/-- the largest prime field size that can be registered is returned exactly -/
def splitMaxPrime : CoreObj := .splitKey ⟨some 3, some 1, some 2, some 2, some (2 ^ 63 - 1)⟩ (some kbAes)
theorem split_key_largest_prime_field_size_exact : storeAndGet splitMaxPrime someAttrs = .ok splitMaxPrime := rfl

/-- **where the two pie → core conversions differ**: `SplitKey()` (nothing set: the constructor validates nothing) is
converted by the factory to a secret with a value-less algorithm wrapper and length 0, by the engine to a secret
without algorithm and length -/
def emptySplit : PieObj := freshPie (.splitKey freshCrypto ⟨none, none, some fmtRaw, toColumns none⟩ ⟨none, none, none, none, none⟩) none
theorem engine_differs_from_factory :
    PieOk emptySplit ∧ PieWf emptySplit ∧
    pieToCore emptySplit = .ok (.splitKey ⟨none, none, none, none, none⟩
      (some { format := .val fmtRaw, compression := none, keyValue := some ⟨.bytes "", 0⟩, alg := .unset, len := .val 0,
              wrapping := none })) ∧
    engineBuildCore emptySplit = .ok (.splitKey ⟨none, none, none, none, none⟩
      (some { format := .val fmtRaw, compression := none, keyValue := some ⟨.bytes "", 0⟩, alg := .absent, len := .absent,
              wrapping := none })) := ⟨rfl, rfl, rfl, rfl⟩

/-- … and the factory's round trip does not give `SplitKey()` back (length 0, empty value): `Complete` is needed -/
theorem pie_core_roundtrip_needs_complete :
    (pieToCore emptySplit >>= coreToPie) =
      .ok (freshPie (.splitKey freshCrypto ⟨none, some 0, some fmtRaw, toColumns none⟩ ⟨none, none, none, none, none⟩) (some "")) := rfl

/-- a pie key whose wrapping columns hold only falsy values is another object after pie → core → pie, although its
`key_wrapping_data` property reads the same (`fresh` normalises the columns) -/
def falsyCols : Columns := { toColumns none with method := .enum 1, ekiUid := .text "7", ekiCp := Kmip.C05.falsyCp }
def keyFalsyCols : PieObj := freshPie (.key freshCrypto .symmetric ⟨some 3, some 128, some fmtRaw, falsyCols⟩) (some aesBytes)
theorem pie_core_roundtrip_normalises_columns :
    PieOk keyFalsyCols ∧ PieWf keyFalsyCols ∧ fresh keyFalsyCols ≠ keyFalsyCols ∧
    (pieToCore keyFalsyCols >>= coreToPie) = .ok (fresh keyFalsyCols) := by
  refine ⟨rfl, rfl, by decide, rfl⟩

/-- a key length outside 32 bits: accepted by the pie constructor of a wrapped key, refused by both conversions to
core (`Integer`), storable -/
def keyLongLength : PieObj :=
  freshPie (.key freshCrypto .symmetric ⟨some 3, some (2 ^ 40), some fmtRaw, { toColumns none with method := .enum 1 }⟩) (some aesBytes)
theorem length_beyond_32_bits_not_convertible :
    PieOk keyLongLength ∧ pieToCore keyLongLength = .error ⟨.valueError, "integer value greater than accepted max"⟩ ∧
    engineBuildCore keyLongLength = .error ⟨.valueError, "integer value greater than accepted max"⟩ ∧
    (pieToRow keyLongLength).toOption.isSome = true := ⟨rfl, rfl, rfl, by decide⟩

/-! ## non-vacuity: for each of the seven types a secret in the domain of every theorem, through the whole path -/

/-- the hypotheses of `register_get_exact` / `client_sees_registered_object` hold for `c` with the attributes `a` -/
def InDomain (c : CoreObj) (a : Attrs) : Prop :=
  CoreWf c ∧ Storable c ∧ (∀ m ∈ a.masks, m ∈ maskBits) ∧
  ∃ p r, coreToPie c = .ok p ∧ pieToRow (withAttrs p a) = .ok r ∧ PieOk p ∧ PieWf (withAttrs p a) ∧ Complete p

theorem someAttrs_masks : ∀ m ∈ someAttrs.masks, m ∈ maskBits := by decide
example : AttrsFit someAttrs := ⟨rfl, rfl, rfl⟩

theorem kbStorable_plain (kb : CoreKeyBlock) (h1 : kb.compression = none) (h2 : (kb.keyValue.map (·.attrs)).getD 0 = 0)
    (h3 : kb.alg ≠ .unset) (h4 : kb.len ≠ .unset) (h5 : kb.wrapping = none) : kbStorable kb :=
  ⟨h1, h2, h3, h4, by rw [h5]; trivial⟩

example : InDomain (.certificate certX509 "3082") someAttrs :=
  ⟨rfl, trivial, someAttrs_masks, _, _, rfl, rfl, rfl, rfl, ⟨rfl, trivial⟩⟩
example : InDomain (.key .symmetric (some kbAes)) someAttrs :=
  ⟨rfl, kbStorable_plain _ rfl rfl (by decide) (by decide) rfl, someAttrs_masks, _, _, rfl, rfl, rfl, rfl, ⟨rfl, rfl, rfl, rfl⟩⟩
example : InDomain (.key .publicKey (some { kbAes with format := .val fmtX509, alg := .val 4, len := .val 2048 })) someAttrs :=
  ⟨rfl, kbStorable_plain _ rfl rfl (by decide) (by decide) rfl, someAttrs_masks, _, _, rfl, rfl, rfl, rfl, ⟨rfl, rfl, rfl, rfl⟩⟩
example : InDomain (.key .privateKey (some { kbAes with format := .val fmtPkcs8, alg := .val 4, len := .val 2048 })) someAttrs :=
  ⟨rfl, kbStorable_plain _ rfl rfl (by decide) (by decide) rfl, someAttrs_masks, _, _, rfl, rfl, rfl, rfl, ⟨rfl, rfl, rfl, rfl⟩⟩
example : InDomain (.splitKey ⟨some 3, some 1, some 2, some 1, none⟩ (some kbAes)) someAttrs :=
  ⟨rfl, kbStorable_plain _ rfl rfl (by decide) (by decide) rfl, someAttrs_masks, _, _, rfl, rfl, rfl, rfl, ⟨rfl, rfl, rfl, rfl⟩⟩
def secretPassword : CoreObj :=
  .secretData (.val 1) (some { format := .val fmtOpaque, compression := none, keyValue := some ⟨.bytes "70617373", 0⟩,
                               alg := .absent, len := .absent, wrapping := none })
example : InDomain secretPassword someAttrs :=
  ⟨rfl, ⟨rfl, rfl, rfl, rfl, rfl⟩, someAttrs_masks, _, _, rfl, rfl, rfl, rfl, ⟨rfl, trivial⟩⟩
example : InDomain (.opaqueObj (.val 2147483648) (some "00ff")) noAttrs :=
  ⟨rfl, trivial, by decide, _, _, rfl, rfl, rfl, rfl, ⟨rfl, trivial⟩⟩

/-- a wrapped key whose key wrapping data is normal (a truthy parameter among falsy ones): in the domain, returned exactly -/
def wrapNormal : WrapDict :=
  ⟨.enum 1, some ⟨.text "7", some (Kmip.C05.falsyCp.set 0 (.enum 13))⟩, none, .none, .bytes "0000000000000000", .enum 1⟩
theorem wrapNormal_normal : wrapNormal.Normal :=
  ⟨⟨⟨by decide, by decide⟩, by decide⟩, trivial, by decide⟩
def keyWrapped : CoreObj :=
  .key .symmetric (some { kbAes with keyValue := some ⟨.bytes (aesBytes ++ "a6a6a6a6a6a6a6a6"), 0⟩, wrapping := some wrapNormal })
example : InDomain keyWrapped someAttrs :=
  ⟨rfl, ⟨rfl, rfl, by decide, by decide, wrapNormal_normal⟩, someAttrs_masks, _, _, rfl, rfl, rfl, rfl, ⟨rfl, rfl, rfl, rfl⟩⟩
example : storeAndGet keyWrapped someAttrs = .ok keyWrapped := rfl
/-- the masks `[8, 4]` of `someAttrs` come back as `[4, 8]`; the absent policy name as `'default'` -/
example : (coreToPie keyWrapped >>= fun p => pieToRow (withAttrs p someAttrs)).map (fun r => ((rowToPie r).spec.crypto?, (rowToPie r).policy)) =
    .ok (some ⟨[4, 8], some 1⟩, some "default") := rfl

/-- refusals of the pie constructors (`convertCheck` of the engine model mirrors these) -/
example : coreToPie (.certificate 2 "00") = .error ⟨.typeError, "core certificate type not supported"⟩ := rfl
example : coreToPie (.key .symmetric (some { kbAes with len := .val 256 })) =
    .error ⟨.valueError, "not equal to key value length"⟩ := rfl
example : coreToPie (.key .symmetric (some { kbAes with format := .val fmtPkcs1 })) =
    .error ⟨.typeError, "core key format type not compatible with Pie SymmetricKey"⟩ := rfl
example : coreToPie (.key .publicKey (some { kbAes with format := .val fmtPkcs8 })) =
    .error ⟨.valueError, "key format type must be one of"⟩ := rfl
example : coreToPie (.key .privateKey (some { kbAes with alg := .absent })) =
    .error ⟨.attributeError, "object has no attribute"⟩ := rfl
/-- a wrapped symmetric key needs no length agreement -/
example : (coreToPie (.key .symmetric (some { kbAes with len := .val 256, wrapping := some wrapNormal }))).toOption.isSome = true := by
  decide


end Kmip.C05Convert
