/-
C02, envelope clause, over the ENGINE MODEL: every response message composed from what `processRequest`
returns - for any request, identity, engine state, context and any encoder of payload contents - follows the
message envelope (request's version echoed, time stamp, batch count = number of items, status in every item,
reason and message exactly when the status is not Success).
-/
import KmipModel.EngineResponse
import KmipModel.Props.C02
import KmipModel.Lemmas.Run
namespace Kmip.C02Engine
open Kmip Kmip.TTLV Kmip.EngineResponse

theorem itemOf_payloadOk (enc : Data → List TTLV.Item) (r : ItemResult) : C02.payloadOk (itemOf enc r) := by
  obtain ⟨op, bid, res⟩ := r
  cases res with
  | ok d => simp [itemOf, outcomeOf, C02.payloadOk, Envelope.Item.tag]
  | error e => cases e <;> simp [itemOf, outcomeOf, C02.payloadOk]

/-- **Envelope of every response of the engine model.** -/
theorem engine_response_envelope (enc : Data → List TTLV.Item) (c : Ctx) (e : Engine) (id : Identity) (req : Request) :
    Envelope.faults (some (verPair req.version)) (responseOf enc c req (processRequest c e id req).2) = [] := by
  cases h : (processRequest c e id req).2 with
  | results rs =>
    simp only [responseOf]
    refine C02.response_envelope _ _ _ ?_
    intro r hr
    simp only [List.mem_map] at hr
    obtain ⟨r0, _, rfl⟩ := hr
    exact itemOf_payloadOk enc r0
  | rejected reason msg =>
    simp only [responseOf]
    exact C02.error_response_envelope _ _ _ _

/-- the batch count of the response equals the number of executed items, which is a prefix of the request's
items (C08) - here: never more than the request carries -/
theorem response_items_le (c : Ctx) (e : Engine) (id : Identity) (req : Request) (rs : List ItemResult)
    (h : (processRequest c e id req).2 = .results rs) : rs.length ≤ req.items.length := by
  rcases processRequest_cases c e id req with ⟨_, rsn, m, hr⟩ | hb
  · rw [hr] at h; cases h
  · rw [hb] at h
    simp only [ReqResult.results.injEq] at h
    subst h
    generalize (⟨e.store, none, req.version, id⟩ : Engine) = e0
    generalize req.items = items
    induction items generalizing e0 with
    | nil => simp [batchSpec]
    | cons it rest ih =>
      simp only [batchSpec]
      split
      · simp only [List.length_cons]; exact Nat.succ_le_succ (ih _)
      · split
        · simp
        · simp only [List.length_cons]; exact Nat.succ_le_succ (ih _)

/-- non-vacuity: a rejected request (Undo batch option... here: unsupported version 9) gets a conforming
one-item error response -/
example : Envelope.faults (some (0, 9))
    (responseOf (fun _ => []) ⟨[], [], 1000, [10, 11, 12, 13, 14, 20]⟩ ⟨9, none, none, none, none, []⟩
      (.rejected 4 "KMIP 0.9 is not supported by the server.")) = [] := by decide

end Kmip.C02Engine
