/-
C12 — The session answers any bytes safely, once, and keeps going.

Model: KmipModel/Session.lean (M7).  The request decoder, the engine and the
response encoder are parameters (`Env`), so every theorem holds for every decoder
verdict, every engine behaviour and every encoder that satisfies `EncoderOk`
(error responses can be encoded and are smaller than the session maximum).  Nothing
is assumed about what the engine returns: a response that cannot be encoded is
answered with a General Failure error (/repo 3b7c017), a requested Maximum Response
Size of 0 is honoured (/repo 60a38dc).  The correspondence run (harness/props/c12.py)
takes the decoder verdict from the real `RequestMessage.read` and checks `EncoderOk`
on every response the real session produced.
-/
import KmipModel.Lemmas.Session
namespace Kmip.C12
open Kmip Kmip.Session

variable {Q R σ : Type}

/-! ## framing does not depend on how the transport chunks the stream -/

/-- Two chunkings of the same byte stream give the same framed requests and the same residue. -/
theorem frames_chunk_independent (cs₁ cs₂ : List Bytes)
    (h₁ : ∀ b ∈ cs₁, b ≠ []) (h₂ : ∀ b ∈ cs₂, b ≠ []) (h : cs₁.flatten = cs₂.flatten) :
    frames (ofChunks cs₁) = frames (ofChunks cs₂) := by
  unfold frames
  rw [reads_clean _ (clean_ofChunks _ h₁), reads_clean _ (clean_ofChunks _ h₂), flat_ofChunks, flat_ofChunks, h]

/-- …and the whole session (every response, every engine call, the final engine state) is the same. -/
theorem run_chunk_independent (env : Env Q R σ) (cfg : SessionCfg) (peer : Option Cert) (s : σ)
    (cs₁ cs₂ : List Bytes) (h₁ : ∀ b ∈ cs₁, b ≠ []) (h₂ : ∀ b ∈ cs₂, b ≠ []) (h : cs₁.flatten = cs₂.flatten) :
    run env cfg peer s (ofChunks cs₁) = run env cfg peer s (ofChunks cs₂) := by
  rw [run_eq_runReads, run_eq_runReads, reads_clean _ (clean_ofChunks _ h₁), reads_clean _ (clean_ofChunks _ h₂),
    flat_ofChunks, flat_ofChunks, h]

/-- What the frames are: consecutive complete frames (8-byte header, length in bytes 4..7)
that, followed by the residue, make up the stream — nothing lost, nothing invented. -/
theorem frames_partition (cs : List Bytes) (h : ∀ b ∈ cs, b ≠ []) :
    (frames (ofChunks cs)).1.flatten ++ (frames (ofChunks cs)).2 = cs.flatten ∧
    ∀ f ∈ (frames (ofChunks cs)).1, WellFramed f := by
  unfold frames
  rw [reads_clean _ (clean_ofChunks _ h), flat_ofChunks]
  exact framesOf_flatReads _

/-- a stream consisting of complete frames is framed into exactly these frames -/
theorem frames_of_wellframed (fs : List Bytes) (hwf : ∀ f ∈ fs, WellFramed f) (cs : List Bytes)
    (h : ∀ b ∈ cs, b ≠ []) (hcat : cs.flatten = fs.flatten) : frames (ofChunks cs) = (fs, []) := by
  unfold frames
  rw [reads_clean _ (clean_ofChunks _ h), flat_ofChunks, hcat]
  clear hcat h cs
  induction fs with
  | nil => rw [List.flatten_nil, flatReads_none (by decide)]; rfl
  | cons f fs ih =>
    rw [List.flatten_cons, flatReads_append _ (hwf f (List.mem_cons_self ..))]
    simp only [framesOf, ih (fun g hg => hwf g (List.mem_cons_of_mem _ hg))]

/-! ## exactly one response per framed request -/

/-- contract of the encoder parameter: an error response (`build_error_response`) can be written
and is not larger than the session's own maximum -/
structure EncoderOk (env : Env Q R σ) (cfg : SessionCfg) : Prop where
  errEnc : ∀ hdr rsn v, ∃ n, env.encLen (.error hdr rsn) v = some n ∧ n ≤ cfg.maxResponseSize

/-- FULL statement: whatever the decoder, the engine and the engine's response are, every framed
request of the stream gets exactly one response, in order, and nothing but the end of the
connection ends an iteration. -/
def OneResponsePerFrame (env : Env Q R σ) (cfg : SessionCfg) : Prop :=
  ∀ (peer : Option Cert) (s : σ) (cs : List Bytes), (∀ b ∈ cs, b ≠ []) →
    (run env cfg peer s (ofChunks cs)).1.map Event.frame? = (frames (ofChunks cs)).1.map some ∧
    ∀ e ∈ (run env cfg peer s (ofChunks cs)).1, ∃ f o r, e = Event.handled f o ∧ o.sent = some r

theorem emit_error (env : Env Q R σ) (cfg : SessionCfg) (henc : EncoderOk env cfg) (hdr : Ver) (rsn : Nat)
    (req : Option Q) (call : Option (Q × Identity)) :
    emit env ⟨.error hdr rsn, cfg.maxResponseSize, cfg.defaultVer, req, call⟩ = ⟨some (.error hdr rsn), call⟩ := by
  obtain ⟨n, hn, hle⟩ := henc.errEnc hdr rsn cfg.defaultVer
  unfold emit
  simp only [hn, sizeCheck]
  have : ¬ ((n : Int) > (cfg.maxResponseSize : Int)) := by omega
  rw [if_neg this]

/-- with the request decoded, the size check always sends something -/
theorem sizeCheck_sends (env : Env Q R σ) (cfg : SessionCfg) (henc : EncoderOk env cfg) (m : Mid Q R) (req : Q)
    (hreq : m.request = some req) (resp : Response R) (n : Nat) :
    (sizeCheck env m resp n).sent = some resp ∨
    (sizeCheck env m resp n).sent = some (.error (env.version req) SRsn.responseTooLarge) := by
  obtain ⟨k, hk, _⟩ := henc.errEnc (env.version req) SRsn.responseTooLarge m.kmipVersion
  unfold sizeCheck
  simp only [hreq, hk]
  split
  · right; rfl
  · left; rfl

theorem emit_sends (env : Env Q R σ) (cfg : SessionCfg) (henc : EncoderOk env cfg) (m : Mid Q R) (req : Q)
    (hreq : m.request = some req) : ∃ r, (emit env m).sent = some r := by
  unfold emit
  split
  · rcases sizeCheck_sends env cfg henc m req hreq m.response _ with h | h <;> exact ⟨_, h⟩
  · obtain ⟨k, hk, _⟩ := henc.errEnc (env.version req) SRsn.generalFailure m.kmipVersion
    simp only [hreq, hk]
    rcases sizeCheck_sends env cfg henc m req hreq (.error (env.version req) SRsn.generalFailure) k with h | h <;>
      exact ⟨_, h⟩

/-- Every framed request gets a response: no exception leaves `_handle_message_loop`, whatever the
engine does and whatever it returns. -/
theorem handle_one_response (env : Env Q R σ) (cfg : SessionCfg) (henc : EncoderOk env cfg)
    (peer : Option Cert) (s : σ) (data : Bytes) :
    ∃ r, (handleMessage env cfg peer s data).1.sent = some r := by
  unfold handleMessage evaluate
  split
  · rw [emit_error env cfg henc]; exact ⟨_, rfl⟩
  · split
    · rw [emit_error env cfg henc]; exact ⟨_, rfl⟩
    · split
      · rw [emit_error env cfg henc]; exact ⟨_, rfl⟩
      · split
        · exact emit_sends env cfg henc _ _ rfl
        · rw [emit_error env cfg henc]; exact ⟨_, rfl⟩
        · rw [emit_error env cfg henc]; exact ⟨_, rfl⟩

theorem runReads_one_per_frame (env : Env Q R σ) (cfg : SessionCfg) (henc : EncoderOk env cfg)
    (peer : Option Cert) (rs : List Recv) (hns : ∀ p, Recv.short p ∉ rs) (s : σ) :
    (runReads env cfg peer s rs).1.map Event.frame? = (framesOf rs).1.map some ∧
    ∀ e ∈ (runReads env cfg peer s rs).1, ∃ f o r, e = Event.handled f o ∧ o.sent = some r := by
  induction rs generalizing s with
  | nil => exact ⟨rfl, fun e he => by cases he⟩
  | cons x xs ih =>
    have hxs : ∀ p, Recv.short p ∉ xs := fun p hp => hns p (List.mem_cons_of_mem _ hp)
    cases x with
    | closed p => exact ⟨rfl, fun e he => by cases he⟩
    | short p => exact absurd (List.mem_cons_self ..) (hns p)
    | ok d =>
      simp only [runReads, framesOf]
      obtain ⟨r, hr⟩ := handle_one_response env cfg henc peer s d
      obtain ⟨ih1, ih2⟩ := ih hxs (handleMessage env cfg peer s d).2
      constructor
      · simp only [List.map_cons, Event.frame?, ih1]
      · intro e he
        rcases List.mem_cons.mp he with rfl | he
        · exact ⟨_, _, r, rfl, hr⟩
        · exact ih2 e he

/-- **The full statement holds.**  The session answers the framed requests of the stream one by
one, in order: the events of the loop are exactly one per framed request, each of them sent a
response, and no exception other than the end of the connection left an iteration. -/
theorem one_response_per_frame (env : Env Q R σ) (cfg : SessionCfg) (henc : EncoderOk env cfg) :
    OneResponsePerFrame env cfg := by
  intro peer s cs h
  rw [run_eq_runReads]
  unfold frames
  apply runReads_one_per_frame env cfg henc
  rw [reads_clean _ (clean_ofChunks _ h)]
  exact flatReads_no_short _

theorem runReads_event_per_frame (env : Env Q R σ) (cfg : SessionCfg) (peer : Option Cert) (rs : List Recv)
    (hns : ∀ p, Recv.short p ∉ rs) (s : σ) :
    (runReads env cfg peer s rs).1.map Event.frame? = (framesOf rs).1.map some := by
  induction rs generalizing s with
  | nil => rfl
  | cons x xs ih =>
    have hxs : ∀ p, Recv.short p ∉ xs := fun p hp => hns p (List.mem_cons_of_mem _ hp)
    cases x with
    | closed p => rfl
    | short p => exact absurd (List.mem_cons_self ..) (hns p)
    | ok d => simp only [runReads, framesOf, List.map_cons, Event.frame?, ih hxs]

/-- Without any contract on the encoder the events are still one per framed request, in order. -/
theorem one_event_per_frame (env : Env Q R σ) (cfg : SessionCfg) (peer : Option Cert) (s : σ)
    (cs : List Bytes) (h : ∀ b ∈ cs, b ≠ []) :
    (run env cfg peer s (ofChunks cs)).1.map Event.frame? = (frames (ofChunks cs)).1.map some := by
  rw [run_eq_runReads]
  unfold frames
  apply runReads_event_per_frame
  rw [reads_clean _ (clean_ofChunks _ h)]
  exact flatReads_no_short _

/-- The engine answered but its response cannot be encoded: the client is told General Failure under
the request's version (or Response Too Large when even that exceeds the maximum it asked for);
the engine call is on record. -/
theorem unencodable_response_answered (env : Env Q R σ) (cfg : SessionCfg) (henc : EncoderOk env cfg)
    (peer : Option Cert) (cert : Cert) (s s' : σ) (data : Bytes) (req : Q) (id : Identity) (r : R)
    (m : Option Int) (v : Ver)
    (hcert : certStage cfg.auth.tlsClientAuth peer = some cert) (hp : env.parse data = some req)
    (ha : authenticate cfg.auth cert = some id) (he : env.engine s req id = (.ok r m v, s'))
    (hn : env.encLen (.normal r) v = none) :
    ((handleMessage env cfg peer s data).1.sent = some (.error (env.version req) SRsn.generalFailure) ∨
     (handleMessage env cfg peer s data).1.sent = some (.error (env.version req) SRsn.responseTooLarge)) ∧
    (handleMessage env cfg peer s data).1.engineCall = some (req, id) := by
  constructor
  · obtain ⟨k, hk, _⟩ := henc.errEnc (env.version req) SRsn.generalFailure v
    unfold handleMessage evaluate
    simp only [hcert, hp, ha, he, emit, hn, hk]
    exact sizeCheck_sends env cfg henc _ req rfl _ k
  · unfold handleMessage
    rw [emit_engineCall]
    unfold evaluate
    simp only [hcert, hp, ha, he]

/-! ## an undecodable frame: invalid-message error, nothing executed -/

/-- Nothing of a request that could not be decoded is executed: the engine is not called and
its state is what it was (no contract on the parameters needed). -/
theorem parse_failure_no_engine (env : Env Q R σ) (cfg : SessionCfg) (peer : Option Cert) (s : σ) (data : Bytes)
    (hp : env.parse data = none) :
    (handleMessage env cfg peer s data).1.engineCall = none ∧ (handleMessage env cfg peer s data).2 = s := by
  unfold handleMessage
  rw [emit_engineCall]
  unfold evaluate
  split
  · exact ⟨rfl, rfl⟩
  · simp [hp]

/-- …and the client is told so: INVALID_MESSAGE under protocol version 1.0 (when the client
certificate passed the checks that precede decoding). -/
theorem parse_failure_invalid_message_no_engine (env : Env Q R σ) (cfg : SessionCfg) (henc : EncoderOk env cfg)
    (peer : Option Cert) (cert : Cert) (s : σ) (data : Bytes)
    (hcert : certStage cfg.auth.tlsClientAuth peer = some cert) (hp : env.parse data = none) :
    handleMessage env cfg peer s data = (⟨some (.error (1, 0) SRsn.invalidMessage), none⟩, s) := by
  unfold handleMessage evaluate
  simp only [hcert, hp, emit_error env cfg henc]

/-- what an undecodable frame is answered with, whatever the certificate -/
def rejection (cfg : SessionCfg) (peer : Option Cert) : Response R :=
  match certStage cfg.auth.tlsClientAuth peer with
  | none => .error (1, 0) SRsn.authenticationNotSuccessful
  | some _ => .error (1, 0) SRsn.invalidMessage

theorem parse_failure_rejected (env : Env Q R σ) (cfg : SessionCfg) (henc : EncoderOk env cfg)
    (peer : Option Cert) (s : σ) (data : Bytes) (hp : env.parse data = none) :
    handleMessage env cfg peer s data = (⟨some (rejection cfg peer), none⟩, s) := by
  unfold handleMessage evaluate rejection
  cases hc : certStage cfg.auth.tlsClientAuth peer with
  | none => simp only [emit_error env cfg henc]
  | some cert => simp only [hp, emit_error env cfg henc]

/-! ## the loop keeps going -/

/-- After any finite prefix of complete but undecodable frames — under any chunking of the whole
stream — each bad frame has been answered by the rejection, the engine state is untouched, and
the rest of the stream is served exactly as on a fresh connection that delivers only the rest. -/
theorem loop_continues (env : Env Q R σ) (cfg : SessionCfg) (henc : EncoderOk env cfg) (peer : Option Cert) (s : σ)
    (bad : List Bytes) (hwf : ∀ f ∈ bad, WellFramed f) (hbad : ∀ f ∈ bad, env.parse f = none)
    (cs cs' : List Bytes) (h : ∀ b ∈ cs, b ≠ []) (h' : ∀ b ∈ cs', b ≠ [])
    (hcat : cs.flatten = bad.flatten ++ cs'.flatten) :
    run env cfg peer s (ofChunks cs) =
      (bad.map (fun f => Event.handled f ⟨some (rejection cfg peer), none⟩) ++ (run env cfg peer s (ofChunks cs')).1,
       (run env cfg peer s (ofChunks cs')).2) := by
  rw [run_eq_runReads, run_eq_runReads, reads_clean _ (clean_ofChunks _ h), reads_clean _ (clean_ofChunks _ h'),
    flat_ofChunks, flat_ofChunks, hcat]
  clear hcat h h' cs
  induction bad with
  | nil => simp
  | cons f fs ih =>
    have hf := hwf f (List.mem_cons_self ..)
    rw [List.flatten_cons, List.append_assoc, flatReads_append _ hf]
    simp only [runReads, parse_failure_rejected env cfg henc peer s f (hbad f (List.mem_cons_self ..))]
    rw [ih (fun g hg => hwf g (List.mem_cons_of_mem _ hg)) (fun g hg => hbad g (List.mem_cons_of_mem _ hg))]
    simp

/-- in particular a single good frame after the bad ones is answered as a fresh connection would answer it -/
theorem good_after_bad (env : Env Q R σ) (cfg : SessionCfg) (henc : EncoderOk env cfg) (peer : Option Cert) (s : σ)
    (bad : List Bytes) (good : Bytes) (hwf : ∀ f ∈ bad, WellFramed f) (hbad : ∀ f ∈ bad, env.parse f = none)
    (hg : WellFramed good) (cs : List Bytes) (h : ∀ b ∈ cs, b ≠ []) (hcat : cs.flatten = bad.flatten ++ good) :
    run env cfg peer s (ofChunks cs) =
      (bad.map (fun f => Event.handled f ⟨some (rejection cfg peer), none⟩) ++
         [Event.handled good (handleMessage env cfg peer s good).1],
       (handleMessage env cfg peer s good).2) := by
  have hne : good ≠ [] := by intro h0; rw [h0] at hg; exact absurd hg.1 (by decide)
  have := loop_continues env cfg henc peer s bad hwf hbad cs [good] h
    (by intro b hb; simp at hb; rw [hb]; exact hne) (by simpa using hcat)
  rw [this, run_eq_runReads, reads_clean _ (clean_ofChunks _ (by intro b hb; simp at hb; rw [hb]; exact hne)),
    flat_ofChunks]
  have hfl : [good].flatten = good ++ [] := by simp
  rw [hfl, flatReads_append _ hg, flatReads_none (by decide)]
  simp [runReads]

/-! ## response size -/

/-- The last sentence of the property: whenever the engine's response, encoded,
is longer than the maximum the client asked for, the client receives RESPONSE_TOO_LARGE. -/
def OversizeReplaced (env : Env Q R σ) (cfg : SessionCfg) : Prop :=
  ∀ (peer : Option Cert) (cert : Cert) (s s' : σ) (data : Bytes) (req : Q) (id : Identity) (r : R) (m : Int)
    (v : Ver) (n : Nat),
    certStage cfg.auth.tlsClientAuth peer = some cert → env.parse data = some req →
    authenticate cfg.auth cert = some id → env.engine s req id = (.ok r (some m) v, s') →
    env.encLen (.normal r) v = some n → (n : Int) > m →
    (handleMessage env cfg peer s data).1.sent = some (.error (env.version req) SRsn.responseTooLarge)

/-- **The full statement holds**, for every requested maximum (0 and negative values included). -/
theorem oversize_replaced (env : Env Q R σ) (cfg : SessionCfg) (henc : EncoderOk env cfg) :
    OversizeReplaced env cfg := by
  intro peer cert s s' data req id r m v n hcert hp ha he hn hbig
  obtain ⟨k, hk, _⟩ := henc.errEnc (env.version req) SRsn.responseTooLarge v
  unfold handleMessage evaluate
  simp only [hcert, hp, ha, he, emit, sizeCheck, hn, hbig, if_true, hk]

/-- no maximum requested: the session's own maximum (1 MiB) applies -/
theorem oversize_default (env : Env Q R σ) (cfg : SessionCfg) (henc : EncoderOk env cfg)
    (peer : Option Cert) (cert : Cert) (s s' : σ) (data : Bytes) (req : Q) (id : Identity) (r : R)
    (v : Ver) (n : Nat)
    (hcert : certStage cfg.auth.tlsClientAuth peer = some cert) (hp : env.parse data = some req)
    (ha : authenticate cfg.auth cert = some id) (he : env.engine s req id = (.ok r none v, s'))
    (hn : env.encLen (.normal r) v = some n) (hbig : n > cfg.maxResponseSize) :
    (handleMessage env cfg peer s data).1.sent = some (.error (env.version req) SRsn.responseTooLarge) := by
  obtain ⟨k, hk, _⟩ := henc.errEnc (env.version req) SRsn.responseTooLarge v
  have : (n : Int) > (cfg.maxResponseSize : Int) := by omega
  unfold handleMessage evaluate
  simp only [hcert, hp, ha, he, emit, sizeCheck, hn, this, if_true, hk]

/-- a response that fits is sent unchanged -/
theorem fitting_response_sent (env : Env Q R σ) (cfg : SessionCfg)
    (peer : Option Cert) (cert : Cert) (s s' : σ) (data : Bytes) (req : Q) (id : Identity) (r : R) (m : Int)
    (v : Ver) (n : Nat)
    (hcert : certStage cfg.auth.tlsClientAuth peer = some cert) (hp : env.parse data = some req)
    (ha : authenticate cfg.auth cert = some id) (he : env.engine s req id = (.ok r (some m) v, s'))
    (hn : env.encLen (.normal r) v = some n) (hfit : (n : Int) ≤ m) :
    (handleMessage env cfg peer s data).1.sent = some (.normal r) := by
  have : ¬ ((n : Int) > m) := by omega
  unfold handleMessage evaluate
  simp only [hcert, hp, ha, he, emit, sizeCheck, hn, this, if_false]

/-! ### a small world for the examples -/

/-- one-request world: the decoder accepts everything, the engine answers "r" and echoes the
requested maximum `m`, every message encodes to 100 bytes -/
def demoEnv (m : Option Int) : Env Unit Unit Unit where
  parse := fun _ => some ()
  version := fun _ => (1, 2)
  engine := fun _ _ _ => (.ok () m (1, 2), ())
  encLen := fun _ _ => some 100

def demoCfg : SessionCfg := { auth := { tlsClientAuth := true, plugins := [], slugs := ⟨fun _ _ => .unreachable, fun _ _ => .unreachable⟩ } }
def demoCert : Cert := ⟨some [.clientAuth], ["alice"]⟩

theorem demo_encoderOk (m : Option Int) : EncoderOk (demoEnv m) demoCfg :=
  ⟨fun _ _ _ => ⟨100, rfl, by decide⟩⟩

/-- the same world with an encoder that cannot write the engine's response -/
def demoEnvUnencodable : Env Unit Unit Unit :=
  { demoEnv none with encLen := fun r _ => match r with | .normal _ => none | .error _ _ => some 100 }

theorem demoUnencodable_encoderOk : EncoderOk demoEnvUnencodable demoCfg := ⟨fun _ _ _ => ⟨100, rfl, by decide⟩⟩

/-! ### non-vacuity -/

/-- `EncoderOk` is satisfiable, and with it the hypotheses inside `OversizeReplaced`: a maximum of 64, and of 0 -/
example : (handleMessage (demoEnv (some 64)) demoCfg (some demoCert) () []).1.sent
    = some (.error (1, 2) SRsn.responseTooLarge) :=
  oversize_replaced (demoEnv (some 64)) demoCfg (demo_encoderOk _) (some demoCert) demoCert () () [] ()
    ⟨some "alice", none⟩ () 64 (1, 2) 100 (by decide) rfl (by decide) rfl rfl (by decide)
example : (handleMessage (demoEnv (some 0)) demoCfg (some demoCert) () []).1.sent
    = some (.error (1, 2) SRsn.responseTooLarge) := by decide
/-- an unencodable engine response is answered General Failure -/
example : (handleMessage demoEnvUnencodable demoCfg (some demoCert) () []).1.sent
    = some (.error (1, 2) SRsn.generalFailure) := by decide

/-- a complete frame: header announcing 8 payload bytes -/
def demoFrame : Bytes := [0x42, 0, 0x78, 1, 0, 0, 0, 8, 1, 2, 3, 4, 5, 6, 7, 8]
example : WellFramed demoFrame := by decide
/-- two different chunkings of two frames (one of them byte by byte) -/
example : frames (ofChunks [demoFrame ++ demoFrame]) = ([demoFrame, demoFrame], []) :=
  frames_of_wellframed [demoFrame, demoFrame] (by intro f hf; simp at hf; rw [hf]; decide) _
    (by intro b hb; simp at hb; rw [hb]; decide) (by simp)
example : frames (ofChunks ((demoFrame ++ demoFrame).map fun b => [b])) = ([demoFrame, demoFrame], []) :=
  frames_of_wellframed [demoFrame, demoFrame] (by intro f hf; simp at hf; rw [hf]; decide) _
    (by decide) (by decide)
/-- an undecodable frame exists for some decoder: hypotheses of `loop_continues` are satisfiable -/
example : ∃ env : Env Unit Unit Unit, env.parse demoFrame = none ∧ EncoderOk env demoCfg :=
  ⟨{ demoEnv none with parse := fun _ => none }, rfl, ⟨fun _ _ _ => ⟨100, rfl, by decide⟩⟩⟩
/-- `OneResponsePerFrame` for two concrete worlds, one of them with unencodable engine responses -/
example : OneResponsePerFrame (demoEnv none) demoCfg := one_response_per_frame _ _ (demo_encoderOk _)
example : OneResponsePerFrame demoEnvUnencodable demoCfg := one_response_per_frame _ _ demoUnencodable_encoderOk

end Kmip.C12
