/-
C08, "a batch item that reports failure does not disturb later items" and the results of a batch are the results of
its items - as ONE statement over the engine model: a batch processed under the Continue option gives, item for item,
the answers the same items get when each is sent as a request of its own, in order, and leaves the same store -
provided no item relies on the ID placeholder (which lives exactly as long as one request: `processRequest` resets it).
This is the model-side counterpart of the twin pass of the C08 check (`harness/props/c08.py twin_case`), which runs the
real engine both ways; for the items that DO use the placeholder the check substitutes the identifier the placeholder
stands for, the theorem excludes them (`explicitUid`).
-/
import KmipModel.Lemmas.Store
import KmipModel.Props.C09Request
namespace Kmip.C08Twin
open Kmip

/-- engines that agree on everything that outlives a request: store, and the per-request identity / version a request
sets before its items run; they may differ in the ID placeholder -/
def SameButPh (e e' : Engine) : Prop := e.store = e'.store ∧ e.identity = e'.identity ∧ e.version = e'.version

theorem SameButPh.refl (e : Engine) : SameButPh e e := ⟨rfl, rfl, rfl⟩

def given (u : Option String) : Bool := match u with | some s => s != "" | none => false

/-- the item names the object it works on (or works on none): it never looks at the ID placeholder -/
def explicitUid : Payload → Bool
  | .get u .. => given u
  | .getAttributes u _ => given u
  | .getAttributeList u => given u
  | .activate u => u.isSome
  | .revoke u _ => u.isSome
  | .destroy u => u.isSome
  | .encrypt u _ => given u
  | .decrypt u _ => given u
  | .sign u _ => given u
  | .signatureVerify u _ => given u
  | .mac u _ _ => u.isSome
  | .setAttribute u _ => given u
  | .modifyAttribute u .. => given u
  | .deleteAttribute u .. => given u
  | _ => true

theorem uidOr_given {u : Option String} (h : given u = true) (p q : Option String) : uidOr u p = uidOr u q := by
  cases u with
  | none => simp [given] at h
  | some s => simp [given] at h; simp [uidOr, h]

theorem uidOrObj_some {u : Option String} (h : u.isSome = true) (p q : Option String) : uidOrObj u p = uidOrObj u q := by
  cases u with
  | none => simp at h
  | some s => rfl

/-! ### every handler reads the engine through store, identity and version only (and the placeholder through `uidOr`) -/

section
variable {e e' : Engine}

theorem getWithAccess_congr (c : Ctx) (h : SameButPh e e') (u : Option String) (op : Nat) :
    getWithAccess c e u op = getWithAccess c e' u op := by
  unfold getWithAccess; rw [h.1, h.2.1]

theorem listWithAccess_congr (c : Ctx) (h : SameButPh e e') (op : Nat) : listWithAccess c e op = listWithAccess c e' op := by
  unfold listWithAccess; rw [h.1, h.2.1]

theorem finalize_congr (c : Ctx) (h : SameButPh e e') (o : Obj) : finalize c e o = finalize c e' o := by
  unfold finalize; rw [h.2.1]

theorem deriveBases_congr (c : Ctx) (h : SameButPh e e') (us : List String) : deriveBases c e us = deriveBases c e' us := by
  induction us with
  | nil => rfl
  | cons u us ih => simp only [deriveBases, getWithAccess_congr c h, ih]

theorem getWrapKey_congr (c : Ctx) (h : SameButPh e e') (ku : String) : getWrapKey c e ku = getWrapKey c e' ku := by
  unfold getWrapKey; rw [getWithAccess_congr c h]

theorem wrapGuards_congr (c : Ctx) (h : SameButPh e e') (o : Obj) (w : WrapSpec) (cr : Crypto) :
    wrapGuards c e o w cr = wrapGuards c e' o w cr := by
  unfold wrapGuards; simp only [getWrapKey_congr c h]

theorem cryptoGuard_congr (c : Ctx) (h : SameButPh e e') (u : Option String) (hp : Bool) (k b : Nat) :
    cryptoGuard c e u hp k b = cryptoGuard c e' u hp k b := by
  unfold cryptoGuard; simp only [getWithAccess_congr c h]

theorem opCreate_congr (c : Ctx) (h : SameButPh e e') (ot) (t) (cr) : opCreate c e ot t cr = opCreate c e' ot t cr := by
  unfold opCreate
  simp only [getWithAccess_congr c h, listWithAccess_congr c h, finalize_congr c h, deriveBases_congr c h, wrapGuards_congr c h, cryptoGuard_congr c h, h.1, h.2.1, h.2.2]

theorem opCreateKeyPair_congr (c : Ctx) (h : SameButPh e e') (a) (b) (d) (cr) : opCreateKeyPair c e a b d cr = opCreateKeyPair c e' a b d cr := by
  unfold opCreateKeyPair
  simp only [getWithAccess_congr c h, listWithAccess_congr c h, finalize_congr c h, deriveBases_congr c h, wrapGuards_congr c h, cryptoGuard_congr c h, h.1, h.2.1, h.2.2]

theorem opRegister_congr (c : Ctx) (h : SameButPh e e') (ot) (t) (o) : opRegister c e ot t o = opRegister c e' ot t o := by
  unfold opRegister
  simp only [getWithAccess_congr c h, listWithAccess_congr c h, finalize_congr c h, deriveBases_congr c h, wrapGuards_congr c h, cryptoGuard_congr c h, h.1, h.2.1, h.2.2]

theorem opDeriveKey_congr (c : Ctx) (h : SameButPh e e') (ot) (us) (t) (cr) : opDeriveKey c e ot us t cr = opDeriveKey c e' ot us t cr := by
  unfold opDeriveKey
  simp only [getWithAccess_congr c h, listWithAccess_congr c h, finalize_congr c h, deriveBases_congr c h, wrapGuards_congr c h, cryptoGuard_congr c h, h.1, h.2.1, h.2.2]

theorem opLocate_congr (c : Ctx) (h : SameButPh e e') (m) (o) (as) : opLocate c e m o as = opLocate c e' m o as := by
  unfold opLocate
  simp only [getWithAccess_congr c h, listWithAccess_congr c h, finalize_congr c h, deriveBases_congr c h, wrapGuards_congr c h, cryptoGuard_congr c h, h.1, h.2.1, h.2.2]

theorem opDiscoverVersions_congr (c : Ctx) (h : SameButPh e e') (vs) : opDiscoverVersions c e vs = opDiscoverVersions c e' vs := by
  unfold opDiscoverVersions
  simp only [getWithAccess_congr c h, listWithAccess_congr c h, finalize_congr c h, deriveBases_congr c h, wrapGuards_congr c h, cryptoGuard_congr c h, h.1, h.2.1, h.2.2]

theorem opGet_congr (c : Ctx) (h : SameButPh e e') (u : Option String) (f) (cp) (w) (cr) (hx : given u = true) :
    opGet c e u f cp w cr = opGet c e' u f cp w cr := by
  unfold opGet
  simp only [uidOr_given hx e.placeholder e'.placeholder, getWithAccess_congr c h, listWithAccess_congr c h, finalize_congr c h, deriveBases_congr c h, wrapGuards_congr c h, cryptoGuard_congr c h, h.1, h.2.1, h.2.2]

theorem opGetAttributes_congr (c : Ctx) (h : SameButPh e e') (u : Option String) (ns) (hx : given u = true) :
    opGetAttributes c e u ns = opGetAttributes c e' u ns := by
  unfold opGetAttributes
  simp only [uidOr_given hx e.placeholder e'.placeholder, getWithAccess_congr c h, listWithAccess_congr c h, finalize_congr c h, deriveBases_congr c h, wrapGuards_congr c h, cryptoGuard_congr c h, h.1, h.2.1, h.2.2]

theorem opGetAttributeList_congr (c : Ctx) (h : SameButPh e e') (u : Option String) (hx : given u = true) :
    opGetAttributeList c e u  = opGetAttributeList c e' u  := by
  unfold opGetAttributeList
  simp only [uidOr_given hx e.placeholder e'.placeholder, getWithAccess_congr c h, listWithAccess_congr c h, finalize_congr c h, deriveBases_congr c h, wrapGuards_congr c h, cryptoGuard_congr c h, h.1, h.2.1, h.2.2]

theorem opEncrypt_congr (c : Ctx) (h : SameButPh e e') (u : Option String) (p) (cr) (hx : given u = true) :
    opEncrypt c e u p cr = opEncrypt c e' u p cr := by
  unfold opEncrypt
  simp only [uidOr_given hx e.placeholder e'.placeholder, getWithAccess_congr c h, listWithAccess_congr c h, finalize_congr c h, deriveBases_congr c h, wrapGuards_congr c h, cryptoGuard_congr c h, h.1, h.2.1, h.2.2]

theorem opDecrypt_congr (c : Ctx) (h : SameButPh e e') (u : Option String) (p) (cr) (hx : given u = true) :
    opDecrypt c e u p cr = opDecrypt c e' u p cr := by
  unfold opDecrypt
  simp only [uidOr_given hx e.placeholder e'.placeholder, getWithAccess_congr c h, listWithAccess_congr c h, finalize_congr c h, deriveBases_congr c h, wrapGuards_congr c h, cryptoGuard_congr c h, h.1, h.2.1, h.2.2]

theorem opSign_congr (c : Ctx) (h : SameButPh e e') (u : Option String) (p) (cr) (hx : given u = true) :
    opSign c e u p cr = opSign c e' u p cr := by
  unfold opSign
  simp only [uidOr_given hx e.placeholder e'.placeholder, getWithAccess_congr c h, listWithAccess_congr c h, finalize_congr c h, deriveBases_congr c h, wrapGuards_congr c h, cryptoGuard_congr c h, h.1, h.2.1, h.2.2]

theorem opSignatureVerify_congr (c : Ctx) (h : SameButPh e e') (u : Option String) (p) (cr) (hx : given u = true) :
    opSignatureVerify c e u p cr = opSignatureVerify c e' u p cr := by
  unfold opSignatureVerify
  simp only [uidOr_given hx e.placeholder e'.placeholder, getWithAccess_congr c h, listWithAccess_congr c h, finalize_congr c h, deriveBases_congr c h, wrapGuards_congr c h, cryptoGuard_congr c h, h.1, h.2.1, h.2.2]

theorem opSetAttribute_congr (c : Ctx) (h : SameButPh e e') (u : Option String) (a) (hx : given u = true) :
    opSetAttribute c e u a = opSetAttribute c e' u a := by
  unfold opSetAttribute
  simp only [uidOr_given hx e.placeholder e'.placeholder, getWithAccess_congr c h, listWithAccess_congr c h, finalize_congr c h, deriveBases_congr c h, wrapGuards_congr c h, cryptoGuard_congr c h, h.1, h.2.1, h.2.2]

theorem opModifyAttribute_congr (c : Ctx) (h : SameButPh e e') (u : Option String) (a) (cu) (nw) (hx : given u = true) :
    opModifyAttribute c e u a cu nw = opModifyAttribute c e' u a cu nw := by
  unfold opModifyAttribute
  simp only [uidOr_given hx e.placeholder e'.placeholder, getWithAccess_congr c h, listWithAccess_congr c h, finalize_congr c h, deriveBases_congr c h, wrapGuards_congr c h, cryptoGuard_congr c h, h.1, h.2.1, h.2.2]

theorem opDeleteAttribute_congr (c : Ctx) (h : SameButPh e e') (u : Option String) (n) (i) (cu) (r) (hx : given u = true) :
    opDeleteAttribute c e u n i cu r = opDeleteAttribute c e' u n i cu r := by
  unfold opDeleteAttribute
  simp only [uidOr_given hx e.placeholder e'.placeholder, getWithAccess_congr c h, listWithAccess_congr c h, finalize_congr c h, deriveBases_congr c h, wrapGuards_congr c h, cryptoGuard_congr c h, h.1, h.2.1, h.2.2]

theorem opActivate_congr (c : Ctx) (h : SameButPh e e') (u : Option String) (hx : u.isSome = true) :
    opActivate c e u  = opActivate c e' u  := by
  unfold opActivate
  simp only [uidOrObj_some hx e.placeholder e'.placeholder, getWithAccess_congr c h, listWithAccess_congr c h, finalize_congr c h, deriveBases_congr c h, wrapGuards_congr c h, cryptoGuard_congr c h, h.1, h.2.1, h.2.2]

theorem opRevoke_congr (c : Ctx) (h : SameButPh e e') (u : Option String) (code) (hx : u.isSome = true) :
    opRevoke c e u code = opRevoke c e' u code := by
  unfold opRevoke
  simp only [uidOrObj_some hx e.placeholder e'.placeholder, getWithAccess_congr c h, listWithAccess_congr c h, finalize_congr c h, deriveBases_congr c h, wrapGuards_congr c h, cryptoGuard_congr c h, h.1, h.2.1, h.2.2]

theorem opDestroy_congr (c : Ctx) (h : SameButPh e e') (u : Option String) (hx : u.isSome = true) :
    opDestroy c e u  = opDestroy c e' u  := by
  unfold opDestroy
  simp only [uidOrObj_some hx e.placeholder e'.placeholder, getWithAccess_congr c h, listWithAccess_congr c h, finalize_congr c h, deriveBases_congr c h, wrapGuards_congr c h, cryptoGuard_congr c h, h.1, h.2.1, h.2.2]

theorem opMac_congr (c : Ctx) (h : SameButPh e e') (u : Option String) (a) (d) (cr) (hx : u.isSome = true) :
    opMac c e u a d cr = opMac c e' u a d cr := by
  unfold opMac
  simp only [uidOrObj_some hx e.placeholder e'.placeholder, getWithAccess_congr c h, listWithAccess_congr c h, finalize_congr c h, deriveBases_congr c h, wrapGuards_congr c h, cryptoGuard_congr c h, h.1, h.2.1, h.2.2]

/-- **an item that names its object is answered the same whatever the placeholder holds** -/
theorem processOperation_congr (c : Ctx) (h : SameButPh e e') (it : Item) (hx : explicitUid it.payload = true) :
    processOperation c e it = processOperation c e' it := by
  unfold processOperation
  rw [h.2.2]
  split
  · rfl
  · split
    · rfl
    · cases hp : it.payload <;> rw [hp] at hx <;> simp only [explicitUid] at hx
      case create => exact opCreate_congr c h ..
      case createKeyPair => exact opCreateKeyPair_congr c h ..
      case register => exact opRegister_congr c h ..
      case deriveKey => exact opDeriveKey_congr c h ..
      case locate => exact opLocate_congr c h ..
      case get => exact opGet_congr c h _ _ _ _ _ hx
      case getAttributes => exact opGetAttributes_congr c h _ _ hx
      case getAttributeList => exact opGetAttributeList_congr c h _ hx
      case activate => exact opActivate_congr c h _ hx
      case revoke => exact opRevoke_congr c h _ _ hx
      case destroy => exact opDestroy_congr c h _ hx
      case query => unfold opQuery; rw [h.2.2]
      case discoverVersions => exact opDiscoverVersions_congr c h ..
      case encrypt => exact opEncrypt_congr c h _ _ _ hx
      case decrypt => exact opDecrypt_congr c h _ _ _ hx
      case sign => exact opSign_congr c h _ _ _ hx
      case signatureVerify => exact opSignatureVerify_congr c h _ _ _ hx
      case mac => exact opMac_congr c h _ _ _ _ hx
      case setAttribute => exact opSetAttribute_congr c h _ _ hx
      case modifyAttribute => exact opModifyAttribute_congr c h _ _ _ _ hx
      case deleteAttribute => exact opDeleteAttribute_congr c h _ _ _ _ _ hx

theorem applyEffect_same (h : SameButPh e e') (eff : Effect) : SameButPh (applyEffect e eff) (applyEffect e' eff) := by
  obtain ⟨h1, h2, h3⟩ := h
  cases eff <;> simp only [applyEffect] <;> refine ⟨?_, h2, h3⟩ <;> simp only [h1]

end

/-- the items sent ONE BY ONE, each as a request of its own: the engine enters every request with the ID placeholder
cleared (`processRequest`), runs the one item, and hands its store to the next request -/
def singles (c : Ctx) : Engine → List Item → Engine × List ItemResult
  | e, [] => (e, [])
  | e, it :: rest =>
    let r1 := batchSpec c false { e with placeholder := none } [it]
    let r := singles c r1.1 rest
    (r.1, r1.2 ++ r.2)

/-- **A Continue batch is its items sent one by one**: same answer for every item, in order, and the same store
afterwards - for items that name their objects (the ID placeholder is the only thing a batch has that a sequence of
requests has not).  In particular a failed item changes nothing for the items after it, and the results of the batch
are exactly the results of its items. -/
theorem continue_batch_is_its_items (c : Ctx) (items : List Item) (hx : ∀ it ∈ items, explicitUid it.payload = true)
    (e e' : Engine) (h : SameButPh e e') :
    (batchSpec c false e items).2 = (singles c e' items).2 ∧
    SameButPh (batchSpec c false e items).1 (singles c e' items).1 := by
  induction items generalizing e e' with
  | nil => exact ⟨rfl, h⟩
  | cons it rest ih =>
    have hx1 := hx it List.mem_cons_self
    have hxr : ∀ x ∈ rest, explicitUid x.payload = true := fun x hm => hx x (List.mem_cons_of_mem _ hm)
    have h0 : SameButPh e { e' with placeholder := none } := ⟨h.1, h.2.1, h.2.2⟩
    have hop := processOperation_congr c h0 it hx1
    simp only [batchSpec, singles]
    rw [← hop]
    cases hp : processOperation c e it with
    | ok r =>
      obtain ⟨eff, d⟩ := r
      simp only []
      have := ih hxr (applyEffect e eff) (applyEffect { e' with placeholder := none } eff) (applyEffect_same h0 eff)
      exact ⟨by simp [this.1], this.2⟩
    | error err =>
      simp only [Bool.false_eq_true, if_false]
      have := ih hxr e { e' with placeholder := none } h0
      exact ⟨by simp [this.1], this.2⟩

/-- the same for a whole request against the same engine: results and store of the batch are those of the sequence -/
theorem continue_batch_is_its_items_same_engine (c : Ctx) (e : Engine) (items : List Item)
    (hx : ∀ it ∈ items, explicitUid it.payload = true) :
    (batchSpec c false e items).2 = (singles c e items).2 ∧
    (batchSpec c false e items).1.store = (singles c e items).1.store :=
  ⟨(continue_batch_is_its_items c items hx e e (SameButPh.refl e)).1,
   (continue_batch_is_its_items c items hx e e (SameButPh.refl e)).2.1⟩

/-! ### non-vacuity, and why the hypothesis is there -/

def ctxB : Ctx := C13.realCtx Gen.builtinPolicies 5
def alice12 : Engine := { Engine.init with version := 12, identity := ⟨some "alice", none⟩ }
def geta (u : String) : Item := ⟨.getAttributes (some u) [], some "g", .internal⟩
def act (u : Option String) : Item := ⟨.activate u, some "a", .internal⟩

/-- a batch [Create; Activate of an unknown object (fails); GetAttributes of the new key]: every item names its object -/
example : ∀ it ∈ [C09.mkKey, C09.failing, geta "1"], explicitUid it.payload = true := by decide

/-- the two sides, computed: three answers (ok, failure, ok) and one stored object either way -/
example : ((batchSpec ctxB false alice12 [C09.mkKey, C09.failing, geta "1"]).2.map (fun r => r.result.isOk),
           (singles ctxB alice12 [C09.mkKey, C09.failing, geta "1"]).2.map (fun r => r.result.isOk),
           (batchSpec ctxB false alice12 [C09.mkKey, C09.failing, geta "1"]).1.store.objs.length,
           (singles ctxB alice12 [C09.mkKey, C09.failing, geta "1"]).1.store.objs.length)
    = ([true, false, true], [true, false, true], 1, 1) := by decide +kernel

/-- without the hypothesis the statement is false: an Activate that names NO object works on the key the batch just
created, and finds nothing when it arrives as a request of its own -/
example : (batchSpec ctxB false alice12 [C09.mkKey, act none]).2.map (fun r => r.result.isOk) = [true, true] ∧
          (singles ctxB alice12 [C09.mkKey, act none]).2.map (fun r => r.result.isOk) = [true, false] := by
  decide +kernel

end Kmip.C08Twin
