/-
C15 — Attribute operations change only what they may, exactly as asked.
-/
import KmipModel.Lemmas.Evolve
import KmipModel.Gen.Tables
namespace Kmip.C15
open Kmip

/-- the context the server actually runs with: the rule table regenerated from /repo -/
def realCtx (policies : Policies) (now : Nat) : Ctx :=
  { rules := Gen.attrRules, policies := policies, now := now, supportedVersions := Gen.supportedVersions }

/-- **Table obligation (re-checked against /repo on every run).** The rule table marks
Cryptographic Algorithm, Cryptographic Length, Cryptographic Usage Mask and Operation
Policy Name — the protected attributes the server stores in client-settable form — as
not modifiable by clients.  (Identifier, object type, state, initial date and owner are
protected by the handlers themselves, whatever the table says: `Persist`.) -/
theorem table_protects :
    protected4.all (fun n => match Gen.attrRules.find? (·.name == n) with
      | some r => !r.modifiableByClient
      | none => true) = true := by decide +kernel

theorem rules_protect (policies : Policies) (now : Nat) : RulesProtect (realCtx policies now) := by
  intro n hn r hr
  have h := List.all_eq_true.mp table_protects n hn
  simp only [realCtx, Ctx.rule?] at hr
  rw [hr] at h
  simpa using h

/-- **Protected attributes are never altered** — not by Set/Modify/DeleteAttribute and
not by any other operation, over any history: identifier, object type, owner, operation
policy name, cryptographic usage mask, algorithm, length and initial date of a stored
object stay what they were; the state moves only forward (and only through Activate /
Revoke, see C04). -/
theorem protected_attributes_immutable (steps : List Step) (hok : StepsOk steps) (e0 : Engine)
    (hi : e0.store.Inv) (hs : e0.store.StatesOk) :
    ∀ o ∈ e0.store.objs, ∀ o' ∈ (run e0 steps).store.objs, o'.uid = o.uid →
      o'.otype = o.otype ∧ o'.owner = o.owner ∧ o'.policy = o.policy ∧ o'.mask = o.mask ∧
      o'.alg = o.alg ∧ o'.len = o.len ∧ o'.initialDate = o.initialDate ∧ rank o.state ≤ rank o'.state := by
  intro o ho o' ho' hu
  have p := (run_evolves e0 steps hok hi hs).persist o ho o' ho' hu
  exact ⟨p.otype, p.owner, p.policy, p.mask, p.alg, p.len, p.date, p.rank⟩

/-- A successful Set/Modify/DeleteAttribute replaces the addressed object by a version
of itself that differs at most in names, object groups, application-specific information
and the sensitive flag (`ProtEq`: every other field equal), and requires the grant. -/
theorem attr_ops_change_only_attributes {c : Ctx} {e : Engine} {it : Item} {eff : Effect} {d : Data}
    (hr : RulesProtect c) (hop : it.payload.op ∈ attrOps) (h : processOperation c e it = .ok (eff, d)) :
    ∃ o ∈ e.store.objs, ∃ o', eff = .update o' ∧ ProtEq o o' ∧ Allowed c e o it.payload.op := by
  have key : ∀ op, EffSpec c e op eff → op ∈ attrOps → (∃ o', eff = .update o') →
      ∃ o ∈ e.store.objs, ∃ o', eff = .update o' ∧ ProtEq o o' ∧ Allowed c e o op := by
    intro op hs hop hupd
    cases hs with
    | none => obtain ⟨_, h⟩ := hupd; cases h
    | insert _ os hos => obtain ⟨_, h⟩ := hupd; cases h
    | activate o ho _ hst => simp [attrOps, Op.activate, Op.setAttribute, Op.modifyAttribute, Op.deleteAttribute] at hop
    | revokeCompromise o s ho _ hst => simp [attrOps, Op.revoke, Op.setAttribute, Op.modifyAttribute, Op.deleteAttribute] at hop
    | revokeDeactivate o ho _ hst => simp [attrOps, Op.revoke, Op.setAttribute, Op.modifyAttribute, Op.deleteAttribute] at hop
    | attr o o' _ ho ha _ hp => exact ⟨o, ho, o', rfl, hp, ha⟩
    | destroy o ho _ _ => obtain ⟨_, h⟩ := hupd; cases h
  refine key _ (processOperation_spec hr h) hop ?_
  -- the three handlers end in `pure (.update …)`
  unfold processOperation at h
  split at h
  · inv h
  · split at h
    · inv h
    · split at h <;> rename_i hpay <;> rw [hpay] at hop <;>
        simp [Payload.op, attrOps, Op.create, Op.createKeyPair, Op.register, Op.deriveKey, Op.locate, Op.get,
          Op.getAttributes, Op.getAttributeList, Op.activate, Op.revoke, Op.destroy, Op.query, Op.discoverVersions,
          Op.encrypt, Op.decrypt, Op.sign, Op.signatureVerify, Op.mac, Op.setAttribute, Op.modifyAttribute,
          Op.deleteAttribute] at hop
      · unfold opSetAttribute at h; inv h; strip h; exact ⟨_, by assumption |> Eq.symm⟩
      · unfold opModifyAttribute at h; inv h; strip h; exact ⟨_, by assumption |> Eq.symm⟩
      · unfold opDeleteAttribute at h; inv h; strip h; exact ⟨_, by assumption |> Eq.symm⟩
      · inv h

/-! ### exactly the addressed instance -/

theorem setNth_length {α} (l : List α) (i : Nat) (a : α) : (setNth l i a).length = l.length := by
  induction l generalizing i with
  | nil => rfl
  | cons x xs ih => cases i <;> simp [setNth, ih]

theorem setNth_get {α} (l : List α) (i : Nat) (a : α) (h : i < l.length) : (setNth l i a)[i]? = some a := by
  induction l generalizing i with
  | nil => simp at h
  | cons x xs ih =>
    cases i with
    | zero => simp [setNth]
    | succ n => simp only [setNth, List.getElem?_cons_succ]; exact ih n (by simpa using h)

theorem setNth_other {α} (l : List α) (i j : Nat) (a : α) (h : j ≠ i) : (setNth l i a)[j]? = l[j]? := by
  induction l generalizing i j with
  | nil => rfl
  | cons x xs ih =>
    cases i with
    | zero =>
      cases j with
      | zero => exact absurd rfl h
      | succ m => simp [setNth]
    | succ n =>
      cases j with
      | zero => simp [setNth]
      | succ m => simp only [setNth, List.getElem?_cons_succ]; exact ih n m (by omega)

/-- ModifyAttribute of name instance `i` (1.x index form, or the instance found by the
2.0 current-attribute form): exactly instance `i` becomes the requested value, every
other instance and every other attribute is unchanged. -/
theorem modify_name_exact {o o' : Obj} {s : String} {t i : Nat}
    (h : setByIndex o "Name" (.name s t) i = .ok o') :
    i < o.names.length ∧ o' = { o with names := setNth o.names i s } ∧
    o'.names[i]? = some s ∧ (∀ j, j ≠ i → o'.names[j]? = o.names[j]?) ∧ o'.names.length = o.names.length := by
  unfold setByIndex at h
  simp only [show ("Name" == "Application Specific Information") = false by decide,
             show ("Name" == "Name") = true by decide, Bool.false_eq_true, if_false, if_true] at h
  inv h
  obtain ⟨hi, rfl⟩ := h
  exact ⟨hi, rfl, setNth_get _ _ _ hi, fun j hj => setNth_other _ _ _ _ hj, setNth_length _ _ _⟩

/-- DeleteAttribute by index removes exactly the addressed instance; a negative or
out-of-range index is refused (after the repair of F-C15-a). -/
theorem delete_index_exact {α} (l l' : List α) (i : Int) (h : popAt l i = .ok l') :
    0 ≤ i ∧ i < l.length ∧ l' = l.eraseIdx i.toNat := by
  unfold popAt at h
  inv h
  obtain ⟨hc, rfl⟩ := h
  simp only [Bool.and_eq_true, decide_eq_true_eq] at hc
  exact ⟨hc.1, hc.2, rfl⟩

theorem delete_negative_refused {α} (l : List α) (i : Int) (hi : i < 0) :
    popAt l i = .error (.kmip Rsn.itemNotFound "Could not locate the attribute instance with the specified index") := by
  unfold popAt
  have : ¬ (0 ≤ i) := by omega
  simp [this, kerr]

/-- Nothing else on any other object: an update effect leaves every object with a
different identifier in place. -/
theorem other_objects_untouched (e : Engine) (o' : Obj) :
    ∀ x ∈ e.store.objs, x.uid ≠ o'.uid → x ∈ (applyEffect e (.update o')).store.objs := by
  intro x hx hne
  simp only [applyEffect, Store.update, List.mem_map]
  exact ⟨x, hx, by simp [hne]⟩

/-- An unsuccessful call changes nothing (a failing handler has no effect). -/
theorem attr_op_failure_no_change (c : Ctx) (e : Engine) (it : Item) (rest : List Item) (err : Err)
    (h : processOperation c e it = .error err) :
    (batchSpec c true e (it :: rest)).1 = e := by
  simp [batchSpec, h]

/-! Non-vacuity -/
example : setByIndex { (newObj 2 "00") with names := ["a", "b", "c"] } "Name" (.name "z" 1) 1
    = .ok { (newObj 2 "00") with names := ["a", "z", "c"] } := by rfl
example : (Gen.attrRules.find? (·.name == "Cryptographic Usage Mask")).isSome = true := by decide +kernel

end Kmip.C15
