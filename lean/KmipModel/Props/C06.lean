/-
C06 — Cryptographic operations compute what they claim  (PARTIAL: the primitives are
OpenSSL's; they enter as the hypothesis `Prims.dec_enc`.  Proved here: the padding
rules, the parameter plumbing ("plan") of Encrypt/Decrypt, and the agreement of the
look-up tables with the names of the algorithms they implement.)
-/
import KmipModel.Crypto
import KmipModel.Gen.Tables
namespace Kmip.C06
open Kmip Kmip.Crypto

/-! ### padding laws -/

theorem mod_lt_block (n block : Nat) (hb : 0 < block) : n % block < block := Nat.mod_lt _ hb

theorem pad_len (block len : Nat) (hb : 0 < block) :
    1 ≤ block - len % block ∧ block - len % block ≤ block ∧ (len + (block - len % block)) % block = 0 := by
  have h1 := Nat.mod_lt len hb
  refine ⟨by omega, by omega, ?_⟩
  have : len + (block - len % block) = block * (len / block) + block := by
    have := Nat.div_add_mod len block
    omega
  rw [this]
  simp [Nat.add_mod, Nat.mul_mod_right]

/-- padded data is a whole number of blocks -/
theorem pkcs7_length_multiple (block : Nat) (d : Bytes) (hb : 0 < block) : (pkcs7Pad block d).length % block = 0 := by
  simp only [pkcs7Pad, List.length_append, List.length_replicate]
  exact (pad_len block d.length hb).2.2

theorem x923_length_multiple (block : Nat) (d : Bytes) (hb : 0 < block) : (x923Pad block d).length % block = 0 := by
  have h := pad_len block d.length hb
  simp only [x923Pad, List.length_append, List.length_replicate, List.length_singleton]
  have : d.length + (block - d.length % block - 1) + 1 = d.length + (block - d.length % block) := by omega
  rw [this]; exact h.2.2

/-- **unpad ∘ pad = id** (PKCS#7), for every block size and every message -/
theorem pkcs7_unpad_pad (block : Nat) (d : Bytes) (hb : 0 < block) : pkcs7Unpad block (pkcs7Pad block d) = some d := by
  have h := pad_len block d.length hb
  generalize hn : block - d.length % block = n at h
  have hlast : (d ++ List.replicate n n).getLast? = some n := by
    cases n with
    | zero => omega
    | succ k => simp [List.replicate_succ', ← List.append_assoc]
  simp only [pkcs7Unpad, pkcs7Pad, hn, hlast]
  have hlen : (d ++ List.replicate n n).length = d.length + n := by simp
  have c1 : ((d ++ List.replicate n n).length % block != 0) = false := by
    rw [hlen]; simp [h.2.2]
  have c2 : (n == 0) = false := by simp; omega
  have c3 : ¬ (n > block) := by omega
  have c4 : ¬ (n > (d ++ List.replicate n n).length) := by rw [hlen]; omega
  simp only [c1, c2, c3, c4, decide_false, Bool.or_false, Bool.false_eq_true, if_false]
  rw [hlen]
  have : d.length + n - n = d.length := by omega
  rw [this]
  simp

theorem x923_unpad_pad (block : Nat) (d : Bytes) (hb : 0 < block) : x923Unpad block (x923Pad block d) = some d := by
  have h := pad_len block d.length hb
  generalize hn : block - d.length % block = n at h
  have hlast : (d ++ List.replicate (n - 1) 0 ++ [n]).getLast? = some n := by simp
  simp only [x923Unpad, x923Pad, hn, hlast]
  have hlen : (d ++ List.replicate (n - 1) 0 ++ [n]).length = d.length + n := by
    simp only [List.length_append, List.length_replicate, List.length_singleton]; omega
  have c1 : ((d ++ List.replicate (n - 1) 0 ++ [n]).length % block != 0) = false := by
    rw [hlen]; simp [h.2.2]
  have c2 : (n == 0) = false := by simp; omega
  have c3 : ¬ (n > block) := by omega
  have c4 : ¬ (n > (d ++ List.replicate (n - 1) 0 ++ [n]).length) := by rw [hlen]; omega
  simp only [c1, c2, c3, c4, decide_false, Bool.or_false, Bool.false_eq_true, if_false]
  rw [hlen]
  have e1 : d.length + n - n = d.length := by omega
  rw [e1]
  have hdrop : (d ++ List.replicate (n - 1) 0 ++ [n]).drop d.length = List.replicate (n - 1) 0 ++ [n] := by
    rw [List.append_assoc, List.drop_left]
  have htake : (d ++ List.replicate (n - 1) 0 ++ [n]).take d.length = d := by
    rw [List.append_assoc, List.take_left]
  rw [hdrop, htake]
  have : (List.replicate (n - 1) 0 ++ [n]).take (n - 1) = List.replicate (n - 1) 0 := by
    rw [List.take_left' (by simp)]
  rw [this]
  simp

/-! ### the plan -/

macro "split_all" h:ident : tactic =>
  `(tactic| repeat' (first | split at $h:ident | (dsimp only at $h:ident; split at $h:ident)))

theorem padPlan_some_iff (T : Tables) (m p : Option Nat) (r : Option Nat) (h : padPlan T m p = .ok r) :
    r.isSome = true ↔ (m = some cbc ∨ m = some ecb) := by
  unfold padPlan at h
  split at h
  · rename_i hc
    have hm : m = some cbc ∨ m = some ecb := by simpa using hc
    split at h
    · cases h
    · split at h
      · cases h; simp [hm]
      · cases h
  · rename_i hc
    cases h
    have : ¬ (m = some cbc ∨ m = some ecb) := by simpa using hc
    simp [this]

theorem encPlan_fields (T : Tables) (p : SymParams) (pl : Plan) (h : encPlan T p = .ok pl) :
    (p.alg = rc4 → pl.padding = none ∧ pl.mode = none ∧ pl.gcm = false) ∧ pl.alg = p.alg ∧ pl.tagLen = p.tagLen ∧
    (p.alg ≠ rc4 → padPlan T p.mode p.padding = .ok pl.padding ∧ pl.mode = p.mode ∧
      pl.gcm = (p.mode == some gcm) ∧
      ∃ c usesIv, p.mode.bind (T.modes.lookup ·) = some (c, usesIv) ∧
        pl.ivGenerated = (usesIv && p.iv.isNone) ∧ pl.iv = planIv usesIv p.iv pl.blockBits) := by
  unfold encPlan at h
  split at h
  · cases h
  · split at h
    · rename_i hrc
      split at h
      · cases h
      · simp only [Except.ok.injEq] at h
        subst h
        refine ⟨fun _ => ⟨rfl, rfl, rfl⟩, rfl, rfl, ?_⟩
        intro hne; simp at hrc; exact absurd hrc hne
    · rename_i hnrc
      split at h
      · cases h
      · split at h
        · cases h
        · split at h
          · cases h
          · rename_i m hm
            split at h
            · cases h
            · rename_i c usesIv hl
              split at h
              · cases h
              · rename_i pad hpad
                simp only [Except.ok.injEq] at h
                subst h
                refine ⟨fun h => ?_, rfl, rfl, ?_⟩
                · exact absurd (by simp [h]) hnrc
                · intro _
                  exact ⟨hpad, hm.symm, rfl, c, usesIv, by simp [hm, hl], rfl, rfl⟩

/-- **Padding is applied for block ciphers in CBC and ECB mode only** (and there it is
mandatory); a stream cipher (RC4) is never padded. -/
theorem padding_only_for_cbc_ecb (T : Tables) (p : SymParams) (pl : Plan) (h : encPlan T p = .ok pl) :
    (pl.padding.isSome = true ↔ (p.alg ≠ rc4 ∧ (p.mode = some cbc ∨ p.mode = some ecb))) := by
  have hf := encPlan_fields T p pl h
  by_cases hr : p.alg = rc4
  · rw [(hf.1 hr).1]; simp [hr]
  · have := padPlan_some_iff T p.mode p.padding pl.padding (hf.2.2.2 hr).1
    rw [this]; simp [hr]

/-- **An IV/nonce is generated exactly when the mode takes one and the client sent none**;
a generated IV has the cipher's block size. -/
theorem iv_generated_iff_absent (T : Tables) (p : SymParams) (pl : Plan) (h : encPlan T p = .ok pl)
    (hne : p.alg ≠ rc4) :
    ∃ c usesIv, p.mode.bind (T.modes.lookup ·) = some (c, usesIv) ∧
      (pl.ivGenerated = true ↔ (usesIv = true ∧ p.iv = none)) ∧
      (pl.ivGenerated = true → pl.iv = some (pl.blockBits / 8)) ∧
      (∀ n, p.iv = some n → usesIv = true → pl.iv = some n) := by
  obtain ⟨c, usesIv, hl, hg, hiv⟩ := ((encPlan_fields T p pl h).2.2.2 hne).2.2.2
  refine ⟨c, usesIv, hl, ?_, ?_, ?_⟩
  · rw [hg]; cases usesIv <;> cases p.iv <;> simp
  · intro hgen
    rw [hg] at hgen
    have hu : usesIv = true := by cases usesIv <;> simp_all
    have hn : p.iv = none := by cases hp : p.iv <;> simp_all
    rw [hiv, hu, hn]; rfl
  · intro n hn hu
    rw [hiv, hu, hn]; rfl

/-- **Decrypt mirrors Encrypt.**  For every parameter tuple Encrypt accepts, Decrypt given
the same parameters, the IV Encrypt used (the client's or the generated one) and a tag
selects the same primitive, mode, IV, padding rule and GCM flag. -/
theorem dec_plan_matches_enc_plan (T : Tables) (p : SymParams) (pe : Plan) (tag : Nat)
    (h : encPlan T p = .ok pe) (hne : p.alg ≠ rc4) :
    ∃ pd, decPlan T { p with iv := pe.iv } (some tag) = .ok pd ∧
      pd.alg = pe.alg ∧ pd.mode = pe.mode ∧ pd.iv = pe.iv ∧ pd.padding = pe.padding ∧ pd.gcm = pe.gcm ∧
      pd.blockBits = pe.blockBits := by
  obtain ⟨alg, mode, padding, iv, aad, tagLen⟩ := p
  simp only at hne
  have hrc : (alg == rc4) = false := by simpa using hne
  unfold encPlan at h
  simp only [hrc, Bool.false_eq_true, if_false] at h
  cases halg : List.lookup alg T.symAlgs with
  | none => simp [halg] at h
  | some r =>
    obtain ⟨cls, bb⟩ := r
    simp only [halg] at h
    split at h
    · cases h
    · rename_i haad
      split at h
      · cases h
      · cases mode with
        | none => cases h
        | some m =>
          simp only at h
          cases hl2 : List.lookup m T.modes with
          | none => simp [hl2] at h
          | some r2 =>
            obtain ⟨c2, u2⟩ := r2
            simp only [hl2] at h
            cases hpad : padPlan T (some m) padding with
            | error e => simp [hpad] at h
            | ok pad =>
              simp only [hpad, Except.ok.injEq] at h
              subst h
              have haad' : (aad && !(some m == some gcm)) = false := by
                cases hq : aad <;> cases hq2 : (some m == some gcm) <;> simp_all
              refine ⟨⟨alg, bb, some m, decIv u2 (planIv u2 iv bb), false, pad, some m == some gcm, some tag⟩,
                      ?_, rfl, rfl, ?_, rfl, rfl, rfl⟩
              · unfold decPlan
                simp only [halg, haad', hrc, hl2, hpad, Option.isNone_some, Bool.and_false, Bool.false_eq_true,
                  if_false]
                cases u2 with
                | false => rfl
                | true =>
                  have : (planIv true iv bb).isNone = false := by unfold planIv; cases iv <;> rfl
                  simp only [this, Bool.and_false, Bool.false_eq_true, if_false]
              · cases u2 <;> simp [decIv, planIv]

/-- **Decrypt inverts Encrypt**, for every accepted parameter tuple, key, IV and message,
given that the backend cipher is invertible (`Prims.dec_enc`) — the padding is removed
exactly. -/
theorem decrypt_encrypt (P : Prims) (pl : Plan) (key iv msg : Bytes) (hb : pl.padding.isSome = true → 0 < pl.blockBits / 8) :
    decryptWith P pl key iv (encryptWith P pl key iv msg) = some msg := by
  unfold decryptWith encryptWith
  rw [P.dec_enc]
  unfold removePad applyPad
  split
  · exact pkcs7_unpad_pad _ _ (hb (by simp_all))
  · exact x923_unpad_pad _ _ (hb (by simp_all))
  · rename_i h1 h2
    split <;> first | rfl | simp_all

/-! ### the look-up tables implement the algorithms their keys name (regenerated from /repo) -/

def isPrefix : List Nat → List Nat → Bool
  | [], _ => true
  | _, [] => false
  | a :: as, b :: bs => a == b && isPrefix as bs

/-- every digital signature algorithm is mapped to the hash its name starts with, and to RSA -/
theorem dsa_table_matches_names :
    Gen.cryptoDsa.all (fun r => isPrefix r.2.2.1 r.2.1 && r.2.2.2 == 4) = true := by decide +kernel

/-- every hashing algorithm is mapped to the hash of the same name -/
theorem hash_table_matches_names :
    Gen.cryptoEncHashes.all (fun r => r.2.1 == r.2.2.1) = true := by decide +kernel

/-- every HMAC algorithm is mapped to the hash its name ends with ("HMAC" ++ hash) -/
theorem mac_table_matches_names :
    Gen.cryptoMacHashes.all (fun r => r.2.1 == [72, 77, 65, 67] ++ r.2.2.1) = true := by decide +kernel

/-- the real tables: block sizes of the supported ciphers, which modes take an IV, and the
two symmetric padding methods -/
def realTables : Tables := ⟨Gen.cryptoSymAlgs, Gen.cryptoModes, Gen.cryptoSymPadding⟩

theorem real_block_sizes_positive :
    Gen.cryptoSymAlgs.all (fun r => r.1 == rc4 || decide (0 < r.2.2 / 8)) = true := by decide +kernel

theorem real_iv_modes :
    Gen.cryptoModes.all (fun r => r.2.2 == (r.1 != ecb)) = true := by decide +kernel

/-- PKCS5 (3) is backed by PKCS#7 padding and ANSI X9.23 (6) by ANSIX923 -/
theorem real_padding_methods :
    Gen.cryptoSymPadding.lookup 3 = some "PKCS7" ∧ Gen.cryptoSymPadding.lookup 6 = some "ANSIX923" ∧
    Gen.cryptoSymPadding.length = 2 := by decide +kernel

/-! Non-vacuity -/
example : (match encPlan realTables ⟨3, some 1, some 3, none, false, none⟩ with
    | .ok pl => pl == ⟨3, 128, some 1, some 16, true, some 3, false, none⟩
    | .error _ => false) = true := by decide +kernel
example : pkcs7Unpad 8 (pkcs7Pad 8 [1, 2, 3]) = some [1, 2, 3] := by decide
example : x923Pad 8 [1, 2, 3] = [1, 2, 3, 0, 0, 0, 0, 5] := by decide

end Kmip.C06
