/-
C10 — Concurrent sessions behave as if served one request at a time.
PARTIAL: proved for the lock model (M11): every schedule the lock permits is equivalent
to the serial execution in lock-acquisition order, which respects each session's own
order; the obligation that every engine entry point that writes shared state takes the
lock is decided on the table regenerated from /repo.  CPython's scheduler and the
thread-safety of SQLite/SQLAlchemy with check_same_thread=False are not modelled; they
are exercised by the threaded correspondence.
-/
import KmipModel.Conc
import KmipModel.Gen.Tables
namespace Kmip.C10
open Kmip Kmip.Conc

/-- no thread other than the lock holder is inside a request -/
def LockInv {σ} (s : Sys σ) : Prop :=
  ∀ u, (s.threads u).cur.isSome = true → s.lock = some u

theorem applySteps_cons {σ} (f : σ → σ) (fs : List (σ → σ)) (x : σ) :
    applySteps (f :: fs) x = applySteps fs (f x) := rfl

/-- key step lemma: an enabled event either starts the next request of the thread named
(first in the serial order) or does not change the `view` -/
theorem exec_view {σ} (s s' : Sys σ) (e : Ev) (hinv : LockInv s) (h : exec s e = some s') :
    LockInv s' ∧
    (match e with
     | .acquire t => ∃ r rest, (s.threads t).pending = r :: rest ∧ s.lock = none ∧
         view s' = applySteps r.steps (view s) ∧
         (∀ u, (s'.threads u).pending = if u = t then rest else (s.threads u).pending)
     | _ => view s' = view s ∧ ∀ u, (s'.threads u).pending = (s.threads u).pending) := by
  cases e with
  | acquire t =>
    simp only [exec] at h
    split at h
    · rename_i hl hc hp
      rename_i r rest
      simp only [Option.some.injEq] at h
      subst h
      refine ⟨?_, r, rest, hp, hl, ?_, ?_⟩
      · intro u hu
        simp only [setThread] at hu
        by_cases hut : u = t
        · subst hut; rfl
        · simp only [hut, if_false] at hu
          have := hinv u hu
          rw [hl] at this; cases this
      · simp [view, setThread, hl]
      · intro u; simp only [setThread]; split <;> rfl
    · cases h
  | step t =>
    simp only [exec] at h
    split at h
    · rename_i hl
      split at h
      · rename_i f fs hc
        simp only [Option.some.injEq] at h
        subst h
        refine ⟨?_, ?_, ?_⟩
        · intro u hu
          simp only [setThread] at hu
          by_cases hut : u = t
          · subst hut; exact hl
          · simp only [hut, if_false] at hu; exact hinv u hu
        · simp [view, hl, hc, setThread, applySteps_cons]
        · intro u; simp only [setThread]; split
          · rename_i hut; subst hut; rfl
          · rfl
      · cases h
    · cases h
  | release t =>
    simp only [exec] at h
    split at h
    · rename_i hl
      split at h
      · rename_i hc
        simp only [Option.some.injEq] at h
        subst h
        refine ⟨?_, ?_, ?_⟩
        · intro u hu
          simp only [setThread] at hu
          by_cases hut : u = t
          · subst hut; simp at hu
          · simp only [hut, if_false] at hu
            have := hinv u hu
            rw [hl] at this
            exact absurd (Option.some.inj this).symm hut
        · simp [view, hl, hc, applySteps]
        · intro u; simp only [setThread]; split
          · rename_i hut; subst hut; rfl
          · rfl
      · cases h
    · cases h

theorem runSerial_congr {σ} (x : σ) (p q : Nat → List (Req σ)) (h : ∀ u, p u = q u) (ts : List Nat) :
    runSerial x p ts = runSerial x q ts := by
  have : p = q := funext h
  rw [this]

/-- **Serializability.**  For every schedule the lock semantics permit — any interleaving of
any number of sessions — the shared state it ends in (with the request in progress, if any,
run to completion) equals the state of the SERIAL execution in which the requests are
processed one at a time in lock-acquisition order; that order takes each session's requests
in the session's own order. -/
theorem locked_serializable {σ} (s s' : Sys σ) (sched : List Ev) (hinv : LockInv s)
    (h : execAll s sched = some s') :
    view s' = runSerial (view s) (fun u => (s.threads u).pending) (acquireOrder sched) := by
  induction sched generalizing s with
  | nil => simp only [execAll, Option.some.injEq] at h; subst h; rfl
  | cons e es ih =>
    simp only [execAll] at h
    cases he : exec s e with
    | none => simp [he] at h
    | some s1 =>
      simp only [he] at h
      have hv := exec_view s s1 e hinv he
      have := ih s1 hv.1 h
      rw [this]
      cases e with
      | acquire t =>
        obtain ⟨r, rest, hp, _, hview, hpend⟩ := hv.2
        simp only [acquireOrder, runSerial, hp]
        rw [hview]
        exact runSerial_congr _ _ _ (fun u => hpend u) _
      | step t =>
        simp only [acquireOrder]
        rw [hv.2.1]
        exact runSerial_congr _ _ _ (fun u => hv.2.2 u) _
      | release t =>
        simp only [acquireOrder]
        rw [hv.2.1]
        exact runSerial_congr _ _ _ (fun u => hv.2.2 u) _

/-- corollary from a quiescent start to a quiescent end: the final shared state IS the serial one -/
theorem locked_serializable_quiescent {σ} (s s' : Sys σ) (sched : List Ev)
    (h0 : s.lock = none) (hc : ∀ u, (s.threads u).cur = none) (h1 : s'.lock = none)
    (h : execAll s sched = some s') :
    s'.shared = runSerial s.shared (fun u => (s.threads u).pending) (acquireOrder sched) := by
  have hinv : LockInv s := by intro u hu; rw [hc u] at hu; cases hu
  have := locked_serializable s s' sched hinv h
  simpa [view, h0, h1] using this

/-- **Identity and version are the request's own**: a microstep that reads what the first
microstep of its own request wrote sees that value, whatever the other sessions do —
because in the equivalent serial execution nothing runs in between. Stated for the
two-step request "write v; read": the read returns v. -/
theorem reads_own_write {σ α} (get : σ → α) (set : α → σ → σ) (hgs : ∀ v x, get (set v x) = v)
    (v : α) (obs : α → σ → σ) (x : σ) :
    applySteps [set v, fun y => obs (get y) y] x = obs v (set v x) := by
  simp [applySteps, hgs]

/-! ### the table obligation (regenerated from /repo on every run) -/

/-- engine fields shared between sessions -/
def sharedFields : List String :=
  ["_client_identity", "_protocol_version", "_attribute_policy", "_data_session", "_id_placeholder", "is_asynchronous"]

def methodOf (n : String) : Option EngineMethod := Gen.engineMethods.find? (·.name == n)

/-- methods reachable from `n` through `self.…()` calls (bounded depth suffices: the call graph is small) -/
def reach : Nat → List String → List String
  | 0, acc => acc
  | k + 1, acc =>
    let next := acc.flatMap (fun n => match methodOf n with | some m => m.calls | none => [])
    reach k (acc ++ next.filter (fun n => !acc.contains n)).eraseDups

def writesShared (n : String) : Bool :=
  (reach 6 [n]).any (fun m => match methodOf m with
    | some em => em.writes.any (fun w => sharedFields.contains w)
    | none => false)

/-- **Every engine entry point used by the session / server code that (transitively)
writes a shared field runs under the lock.** -/
theorem entry_points_locked :
    Gen.engineEntryPoints.all (fun n => match methodOf n with
      | some m => m.synchronized || !writesShared n
      | none => false) = true := by decide +kernel

/-- and request processing is one of them (non-vacuity of the obligation) -/
theorem process_request_is_locked_entry :
    Gen.engineEntryPoints.contains "process_request" = true ∧ writesShared "process_request" = true ∧
    (match methodOf "process_request" with | some m => m.synchronized | none => false) = true := by decide +kernel

/-! Non-vacuity: a two-thread schedule -/
def inc : Nat → Nat := (· + 1)
def dbl : Nat → Nat := (· * 2)
def sys0 : Sys Nat := ⟨1, none, fun t => if t = 0 then ⟨[⟨[inc, inc]⟩], none⟩ else if t = 1 then ⟨[⟨[dbl]⟩], none⟩ else ⟨[], none⟩⟩
example : (execAll sys0 [.acquire 1, .step 1, .release 1, .acquire 0, .step 0, .step 0, .release 0]).map (·.shared) = some 4 := by
  decide
example : execAll sys0 [.acquire 1, .acquire 0] = none := by decide   -- the second acquire blocks

end Kmip.C10
