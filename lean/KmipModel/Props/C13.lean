/-
C13 — Well-formed requests never hit the server's internal-error path.

`internal` is the model's outcome for "a non-KMIP Python exception escaped the
handler" (answered as General Failure).  Proved here: for the lifecycle, read and
cryptographic operations, and for Query / DiscoverVersions, NO request makes the
model end in `internal` — whatever the store, identity, version and parameters —
provided the cryptography backend itself does not raise (`cr ≠ .internal`) and
attribute names are names of the rule table.
The remaining operations (object creation with templates, attribute operations,
Locate with filters, Get with key wrapping) are the PARTIAL part: for each clause in
which the model (= the code) does end in `internal`, a witness is proved below; these
are the known findings of this property (known_findings.json).
-/
import KmipModel.Lemmas.NoInternal
import KmipModel.Lemmas.Run
import KmipModel.Lemmas.WellTypedModify
import KmipModel.Lemmas.StoreShape
import KmipModel.Gen.Tables
namespace Kmip.C13
open Kmip

/-- automation for `NoInternal` goals over `do` blocks -/
macro "noint" : tactic =>
  `(tactic| repeat' (first
      | exact NoInternal.pure _
      | exact NoInternal.ok _
      | exact NoInternal.kerr _ _
      | exact NoInternal.kmip _ _
      | exact getWithAccess_noInternal _ _ _ _
      | (refine NoInternal.ite (fun _ => ?_) (fun _ => ?_))
      | (refine NoInternal.bind ?_ (fun _ _ => ?_))
      | split))

theorem opActivate_noInternal (c : Ctx) (e : Engine) (u : Option String) : NoInternal (opActivate c e u) := by
  unfold opActivate; noint

theorem opRevoke_noInternal (c : Ctx) (e : Engine) (u : Option String) (code : Option Nat) :
    NoInternal (opRevoke c e u code) := by
  unfold opRevoke; noint

theorem opDestroy_noInternal (c : Ctx) (e : Engine) (u : Option String) : NoInternal (opDestroy c e u) := by
  unfold opDestroy; noint

theorem cryptoErr_noInternal {α} (cr : Crypto) (h : cr ≠ .internal) (hcase : ∃ r, cr = .kmipError r) :
    NoInternal (cryptoErr cr : R α) := by
  obtain ⟨r, rfl⟩ := hcase
  unfold cryptoErr; exact NoInternal.kerr _ _

/-- the backend's answer is a result or a KMIP error (it did not raise something else) -/
def Crypto.Sane : Crypto → Prop
  | .ok _ => True
  | .verdict _ => True
  | .kmipError _ => True
  | .ok2 .. => False       -- a key pair is not an answer to these operations
  | .internal => False

theorem cryptoResult_noInternal (u : Option String) (cr : Crypto) (h : Crypto.Sane cr) :
    NoInternal (cryptoResult u cr) := by
  unfold cryptoResult
  cases cr <;> simp only [Crypto.Sane] at h
  · exact NoInternal.pure _
  · exact NoInternal.pure _
  · unfold cryptoErr; exact NoInternal.kerr _ _

theorem cryptoGuard_noInternal (c : Ctx) (e : Engine) (u : Option String) (p : Bool) (k b : Nat) :
    NoInternal (cryptoGuard c e u p k b) := by
  unfold cryptoGuard; noint

/-- Encrypt / Decrypt / Sign / SignatureVerify never end in an internal error, on any
object type in any state, with or without parameters. -/
theorem crypto_ops_noInternal (c : Ctx) (e : Engine) (u : Option String) (p : Bool) (cr : Crypto)
    (h : Crypto.Sane cr) :
    NoInternal (opEncrypt c e u p cr) ∧ NoInternal (opDecrypt c e u p cr) ∧
    NoInternal (opSign c e u p cr) ∧ NoInternal (opSignatureVerify c e u p cr) := by
  refine ⟨?_, ?_, ?_, ?_⟩
  · unfold opEncrypt
    exact NoInternal.bind (cryptoGuard_noInternal _ _ _ _ _ _) (fun _ _ => cryptoResult_noInternal _ _ h)
  · unfold opDecrypt
    exact NoInternal.bind (cryptoGuard_noInternal _ _ _ _ _ _) (fun _ _ => cryptoResult_noInternal _ _ h)
  · unfold opSign
    exact NoInternal.bind (cryptoGuard_noInternal _ _ _ _ _ _) (fun _ _ => cryptoResult_noInternal _ _ h)
  · unfold opSignatureVerify
    exact NoInternal.bind (cryptoGuard_noInternal _ _ _ _ _ _) (fun _ _ => cryptoResult_noInternal _ _ h)

theorem opQuery_noInternal (e : Engine) (fs : List Nat) (h : fs ≠ []) : NoInternal (opQuery e fs) := by
  unfold opQuery
  have : fs.isEmpty = false := by cases fs <;> simp_all
  simp only [this, Bool.false_eq_true, if_false]
  exact NoInternal.pure _

theorem opDiscoverVersions_noInternal (c : Ctx) (e : Engine) (vs : List Nat) :
    NoInternal (opDiscoverVersions c e vs) := by
  unfold opDiscoverVersions; noint

/-! ### reading attributes: every name of the rule table, every object -/

theorem getAttrsStep_noInternal (c : Ctx) (ver : Nat) (o : Obj) (name : String)
    (hshape : ∀ r, c.rule? name = some r → ∀ g, getAttr o name = .ok (some g) →
      (r.multivalued = true ↔ ∃ vs, g = .multi vs)) :
    NoInternal (getAttrsStep c ver o name) := by
  unfold getAttrsStep
  by_cases hs : c.isSupported ver name = true
  · have hk := isSupported_known hs
    simp only [hs, Bool.not_true, Bool.false_eq_true, if_false]
    refine NoInternal.bind (isDeprecated_noInternal _ _ _) ?_
    intro dep _
    split
    · exact NoInternal.pure _
    · refine NoInternal.bind (isApplicable_noInternal _ _ _) ?_
      intro app _
      split
      · exact NoInternal.pure _
      · split
        · exact NoInternal.pure _
        · rename_i g hg
          refine NoInternal.bind (isMultivalued_noInternal _ _) ?_
          intro mv hmv
          -- the getter's shape agrees with the table's multivalued flag
          obtain ⟨r, hr⟩ := Option.isSome_iff_exists.mp hk
          have hmv' : mv = r.multivalued := by
            simp only [Ctx.isMultivalued, hr, pure, Except.pure, Except.ok.injEq] at hmv
            exact hmv.symm
          have hgot : ∃ g', getAttr o name = .ok (some g') ∧ g' = g := by
            revert hg
            cases hga : getAttr o name with
            | error _ => intro hg; simp at hg
            | ok v => intro hg; simp at hg; exact ⟨g, by rw [hg], rfl⟩
          obtain ⟨g', hg', rfl⟩ := hgot
          have hsh := hshape r hr g' hg'
          split
          · rename_i hm
            have : ∃ vs, g' = .multi vs := hsh.mp (by rw [← hmv']; exact hm)
            obtain ⟨vs, rfl⟩ := this
            exact NoInternal.pure _
          · rename_i hm
            cases g' with
            | single v => exact NoInternal.pure _
            | multi vs =>
              exfalso
              have := hsh.mpr ⟨vs, rfl⟩
              rw [← hmv'] at this
              exact hm this
  · simp only [Bool.not_eq_true] at hs
    simp only [hs, Bool.not_false, if_true]
    exact NoInternal.pure _

/-- the context the server runs with (rule table regenerated from /repo) -/
def realCtx (policies : Policies) (now : Nat) : Ctx :=
  { rules := Gen.attrRules, policies := policies, now := now, supportedVersions := Gen.supportedVersions }

def mvOf (name : String) : Option Bool := (Gen.attrRules.find? (·.name == name)).map (·.multivalued)

/-- names for which the getter returns a value, with the shape it returns (true = list) -/
def storedShapes : List (String × Bool) :=
  [("Unique Identifier", false), ("Name", true), ("Object Type", false), ("Cryptographic Algorithm", false),
   ("Cryptographic Length", false), ("Certificate Type", false), ("Operation Policy Name", false),
   ("Cryptographic Usage Mask", false), ("State", false), ("Initial Date", false), ("Object Group", true),
   ("Application Specific Information", true), ("Sensitive", false)]

/-- **Table obligation**: for the attributes the server stores, the rule table's
multivalued flag agrees with the shape of the stored value. -/
theorem table_shapes : storedShapes.all (fun p => mvOf p.1 == some p.2) = true := by decide +kernel

theorem lookup_mem' {α β} [BEq α] [LawfulBEq α] (l : List (α × β)) (k : α) (v : β)
    (h : l.lookup k = some v) : (k, v) ∈ l := by
  induction l with
  | nil => simp at h
  | cons p ps ih =>
    obtain ⟨a, b⟩ := p
    simp only [List.lookup] at h
    split at h
    · rename_i heq
      simp only [beq_iff_eq] at heq
      simp only [Option.some.injEq] at h
      subst heq; subst h; exact List.mem_cons_self
    · exact List.mem_cons_of_mem _ (ih h)

theorem getAttr_shape (o : Obj) (name : String) (g : Got) (hg : getAttr o name = .ok (some g)) :
    ∃ b, (name, b) ∈ storedShapes ∧ (b = true ↔ ∃ vs, g = .multi vs) := by
  unfold getAttr at hg
  split at hg
  · rename_i f hf
    have hm := lookup_mem' _ _ _ hf
    simp only [getters, List.mem_cons, Prod.mk.injEq, List.mem_nil_iff, or_false] at hm
    rcases hm with ⟨rfl, rfl⟩ | ⟨rfl, rfl⟩ | ⟨rfl, rfl⟩ | ⟨rfl, rfl⟩ | ⟨rfl, rfl⟩ | ⟨rfl, rfl⟩ | ⟨rfl, rfl⟩ |
      ⟨rfl, rfl⟩ | ⟨rfl, rfl⟩ | ⟨rfl, rfl⟩ | ⟨rfl, rfl⟩ | ⟨rfl, rfl⟩ | ⟨rfl, rfl⟩
    all_goals (simp only at hg)
    all_goals try split at hg
    all_goals try (simp [ierr, pure, Except.pure] at hg; done)
    all_goals (simp only [pure, Except.pure, Except.ok.injEq, Option.some.injEq, Option.map_eq_some_iff] at hg)
    all_goals try (obtain ⟨_, _, hg⟩ := hg)
    all_goals try subst hg
    all_goals first
      | (refine ⟨false, ?_, by simp⟩; simp [storedShapes]; done)
      | (refine ⟨true, ?_, by simp⟩; simp [storedShapes]; done)
  · simp [pure, Except.pure] at hg

theorem real_shape (policies : Policies) (now : Nat) (o : Obj) (name : String) :
    ∀ r, (realCtx policies now).rule? name = some r → ∀ g, getAttr o name = .ok (some g) →
      (r.multivalued = true ↔ ∃ vs, g = .multi vs) := by
  intro r hr g hg
  obtain ⟨b, hmem, hb⟩ := getAttr_shape o name g hg
  have := List.all_eq_true.mp table_shapes (name, b) hmem
  simp only [mvOf, beq_iff_eq] at this
  simp only [realCtx, Ctx.rule?] at hr
  rw [hr] at this
  simp only [Option.map_some, Option.some.injEq] at this
  rw [this]; exact hb

theorem getAttrs_noInternal (policies : Policies) (now ver : Nat) (o : Obj) (names : List String) :
    NoInternal (getAttrs (realCtx policies now) ver o names) := by
  unfold getAttrs
  refine NoInternal.bind ?_ (fun _ _ => NoInternal.pure _)
  generalize (if names.isEmpty = true then List.map (fun x => x.name) (realCtx policies now).rules else names) = ns
  induction ns with
  | nil => exact NoInternal.pure _
  | cons n rest ih =>
    rw [List.mapM_cons]
    refine NoInternal.bind (getAttrsStep_noInternal _ ver o n (real_shape policies now o n)) ?_
    intro _ _
    exact NoInternal.bind ih (fun _ _ => NoInternal.pure _)

/-- **GetAttributes / GetAttributeList never fail internally**: any identifier, any
requested names (known, unknown, custom), any object type, any version. -/
theorem get_attributes_noInternal (policies : Policies) (now : Nat) (e : Engine) (u : Option String)
    (names : List String) :
    NoInternal (opGetAttributes (realCtx policies now) e u names) ∧
    NoInternal (opGetAttributeList (realCtx policies now) e u) := by
  constructor
  · unfold opGetAttributes
    refine NoInternal.bind (getWithAccess_noInternal _ _ _ _) (fun o _ => ?_)
    exact NoInternal.bind (getAttrs_noInternal policies now _ o names) (fun _ _ => NoInternal.pure _)
  · unfold opGetAttributeList
    refine NoInternal.bind (getWithAccess_noInternal _ _ _ _) (fun o _ => ?_)
    exact NoInternal.bind (getAttrs_noInternal policies now _ o []) (fun _ _ => NoInternal.pure _)

theorem coreObject_noInternal (o : Obj) (v : String) (w : Bool) (u : String) : NoInternal (coreObject o v w u) := by
  unfold coreObject; noint

/-- **Get without key wrapping never fails internally** (any object type, format
request, compression flag). -/
theorem get_plain_noInternal (c : Ctx) (e : Engine) (u : Option String) (f : Option Nat) (cp : Bool) (cr : Crypto) :
    NoInternal (opGet c e u f cp none cr) := by
  unfold opGet
  refine NoInternal.ite (fun _ => NoInternal.kerr _ _) (fun _ => ?_)
  refine NoInternal.bind (getWithAccess_noInternal _ _ _ _) (fun o _ => ?_)
  refine NoInternal.bind ?_ (fun _ _ => ?_)
  · unfold checkFormat; noint
  · exact NoInternal.bind (coreObject_noInternal _ _ _ _) (fun _ _ => NoInternal.pure _)

/-- **MAC never fails internally** (after the repair of F-C13-a), on any object. -/
theorem mac_noInternal (c : Ctx) (e : Engine) (u : Option String) (a : Option Nat) (dt : Bool) (cr : Crypto)
    (h : Crypto.Sane cr) : NoInternal (opMac c e u a dt cr) := by
  unfold opMac
  refine NoInternal.bind (getWithAccess_noInternal _ _ _ _) (fun o _ => ?_)
  refine NoInternal.ite (fun _ => NoInternal.kerr _ _) (fun _ => ?_)
  refine NoInternal.ite (fun _ => NoInternal.kerr _ _) (fun _ => ?_)
  refine NoInternal.ite (fun _ => NoInternal.kerr _ _) (fun _ => ?_)
  refine NoInternal.ite (fun _ => NoInternal.kerr _ _) (fun _ => ?_)
  refine NoInternal.ite (fun _ => NoInternal.kerr _ _) (fun _ => ?_)
  exact cryptoResult_noInternal _ _ h

/-- the backend answered a wrapping request with bytes or a KMIP error -/
def Crypto.Token : Crypto → Prop
  | .ok _ => True
  | .kmipError _ => True
  | _ => False

theorem cryptoToken_noInternal' (cr : Crypto) (h : Crypto.Token cr) : NoInternal (cryptoToken cr) := by
  unfold cryptoToken
  cases cr <;> simp only [Crypto.Token] at h
  · exact NoInternal.pure _
  · unfold cryptoErr; exact NoInternal.kerr _ _

/-- **Get with a key wrapping specification never fails internally** (after the repairs):
any object, any wrapping key, any specification. -/
theorem get_wrapped_noInternal (c : Ctx) (e : Engine) (u : Option String) (f : Option Nat) (cp : Bool)
    (w : Option WrapSpec) (cr : Crypto) (h : Crypto.Token cr) : NoInternal (opGet c e u f cp w cr) := by
  unfold opGet
  refine NoInternal.ite (fun _ => NoInternal.kerr _ _) (fun _ => ?_)
  refine NoInternal.bind (getWithAccess_noInternal _ _ _ _) (fun o _ => ?_)
  refine NoInternal.bind ?_ (fun _ _ => ?_)
  · unfold checkFormat; noint
  · split
    · exact NoInternal.bind (coreObject_noInternal _ _ _ _) (fun _ _ => NoInternal.pure _)
    · refine NoInternal.bind ?_ (fun _ _ => NoInternal.bind (coreObject_noInternal _ _ _ _) (fun _ _ => NoInternal.pure _))
      unfold wrapGuards
      refine NoInternal.ite (fun _ => NoInternal.kerr _ _) (fun _ => ?_)
      split
      · refine NoInternal.bind ?_ (fun _ _ => ?_)
        · unfold getWrapKey; split
          · exact NoInternal.pure _
          · exact NoInternal.kerr _ _
        · refine NoInternal.ite (fun _ => NoInternal.kerr _ _) (fun _ => ?_)
          refine NoInternal.ite (fun _ => NoInternal.kerr _ _) (fun _ => ?_)
          refine NoInternal.ite (fun _ => NoInternal.kerr _ _) (fun _ => ?_)
          refine NoInternal.ite (fun _ => NoInternal.kerr _ _) (fun _ => ?_)
          refine NoInternal.ite (fun _ => NoInternal.kerr _ _) (fun _ => ?_)
          refine NoInternal.ite (fun _ => NoInternal.kerr _ _) (fun _ => ?_)
          refine NoInternal.ite (fun _ => NoInternal.kerr _ _) (fun _ => ?_)
          exact cryptoToken_noInternal' _ h
      · split <;> exact NoInternal.kerr _ _

/-- **The lifecycle, read and cryptographic operations are free of internal errors**
(the proved part of C13), stated on `processOperation`. -/
theorem no_internal_error_partial (policies : Policies) (now : Nat) (e : Engine) (it : Item)
    (hcr : Crypto.Sane it.crypto)
    (hop : match it.payload with
      | .activate _ | .revoke .. | .destroy _ | .getAttributes .. | .getAttributeList _
      | .encrypt .. | .decrypt .. | .sign .. | .signatureVerify .. | .discoverVersions _ | .unsupported _ => True
      | .get _ _ _ w => w = none ∨ Crypto.Token it.crypto
      | .mac .. => True
      | .query fs => fs ≠ []
      | _ => False) :
    NoInternal (processOperation (realCtx policies now) e it) := by
  unfold processOperation
  split
  · exact NoInternal.kerr _ _
  · refine NoInternal.ite (fun _ => NoInternal.kerr _ _) (fun _ => ?_)
    split <;> rename_i hpay <;> rw [hpay] at hop <;> simp only at hop
    all_goals first | (exact False.elim hop) | skip
    · rcases hop with hop | hop
      · subst hop; exact get_plain_noInternal _ _ _ _ _ _
      · exact get_wrapped_noInternal _ _ _ _ _ _ _ hop
    · exact (get_attributes_noInternal policies now e _ _).1
    · exact (get_attributes_noInternal policies now e _ []).2
    · exact opActivate_noInternal _ _ _
    · exact opRevoke_noInternal _ _ _ _
    · exact opDestroy_noInternal _ _ _
    · exact opQuery_noInternal _ _ hop
    · exact opDiscoverVersions_noInternal _ _ _
    · exact (crypto_ops_noInternal _ _ _ _ _ hcr).1
    · exact (crypto_ops_noInternal _ _ _ _ _ hcr).2.1
    · exact (crypto_ops_noInternal _ _ _ _ _ hcr).2.2.1
    · exact (crypto_ops_noInternal _ _ _ _ _ hcr).2.2.2
    · exact mac_noInternal _ _ _ _ _ _ hcr
    · exact NoInternal.kerr _ _

/-! ## The full statement: every well-typed request, every operation, every reachable store -/

/-- **Table obligations** (re-evaluated on the regenerated table on every run). -/
theorem table_single : (realCtx [] 0).mv "Cryptographic Algorithm" = false ∧
    (realCtx [] 0).mv "Cryptographic Length" = false := by
  constructor <;> (simp only [Ctx.mv, Ctx.rule?, realCtx]; decide +kernel)

def modSafeCheck : Bool :=
  (shapeSensitive ++ ["Operation Policy Name"]).all (fun n =>
    match Gen.attrRules.find? (·.name == n) with
    | some r => !r.modifiableByClient
    | none => true)

theorem table_mod_safe : modSafeCheck = true := by decide +kernel

def multiStoredCheck : Bool :=
  ["Name", "Object Group", "Application Specific Information"].all (fun n =>
    match Gen.attrRules.find? (·.name == n) with
    | some r => decide (r.versionAdded ≤ 10) && r.versionDeprecated.isNone &&
        storedTypes.all (fun t => r.appliesTo.contains t)
    | none => false)

theorem table_multi_stored : multiStoredCheck = true := by decide +kernel

theorem realCtx_facts (policies : Policies) (now : Nat) : TableFacts (realCtx policies now) :=
  ⟨table_single.1, table_single.2⟩

theorem realCtx_attrFacts (policies : Policies) (now : Nat) : AttrTableFacts (realCtx policies now) where
  shapes := fun o name r g hr hg => real_shape policies now o name r hr g hg
  mod_safe := by
    intro name r hr hm
    have key : ∀ n ∈ shapeSensitive ++ ["Operation Policy Name"], name ≠ n := by
      intro n hn heq
      subst heq
      have := List.all_eq_true.mp table_mod_safe name hn
      simp only [realCtx, Ctx.rule?] at hr
      rw [hr] at this
      simp only [hm, Bool.not_true] at this
      cases this
    refine ⟨fun hmem => key name (List.mem_append_left _ hmem) rfl, ?_⟩
    exact key _ (by simp)
  multi_stored := by
    intro name hn
    have hmem : name ∈ ["Name", "Object Group", "Application Specific Information"] := by
      rcases hn with rfl | rfl | rfl <;> simp
    have := List.all_eq_true.mp table_multi_stored name hmem
    simp only [realCtx, Ctx.rule?]
    cases hf : Gen.attrRules.find? (·.name == name) with
    | none => rw [hf] at this; cases this
    | some r =>
      rw [hf] at this
      simp only [Bool.and_eq_true, decide_eq_true_eq, Option.isNone_iff_eq_none, List.all_eq_true] at this
      exact ⟨r, rfl, this.1.1, this.1.2, this.2⟩

/-- What the TTLV decoder guarantees about one batch item, plus what the cryptography backend is assumed
to answer (bytes or a KMIP error).  `ValOk` = the attribute value has the kind its name dictates. -/
def WellTyped (c : Ctx) (e : Engine) (it : Item) : Prop :=
  match it.payload with
  | .create _ t => TemplateOk? c t ∧ it.crypto.FitsCreate c e.version t
  | .createKeyPair cm pr pu => TemplateOk? c cm ∧ TemplateOk? c pr ∧ TemplateOk? c pu ∧ it.crypto.IsPair
  | .register _ t _ => TemplateOk? c t
  | .deriveKey _ us t _ _ => TemplateOk? c t ∧ us ≠ [] ∧ it.crypto.IsBytes
  | .locate _ _ as => FiltersOk c as
  | .get _ _ _ w => w = none ∨ Crypto.Token it.crypto
  | .query fs => fs ≠ []
  | .encrypt .. | .decrypt .. | .sign .. | .signatureVerify .. | .mac .. => Crypto.Sane it.crypto
  | .setAttribute _ a => ValOk c a.name a.value
  | .modifyAttribute _ a cu nw =>
      (e.version ≥ 20 → ∃ n, nw = some n ∧ ValOk c n.name n.value) ∧
      (¬ e.version ≥ 20 → ∃ x, a = some x ∧ ValOk c x.name x.value) ∧
      (∀ cur, cu = some cur → ValOk c cur.name cur.value)
  | .deleteAttribute _ _ _ cu _ => ∀ cur, cu = some cur → ValOk c cur.name cur.value
  | _ => True

/-- **C13, full statement on the model**: under the real rule table, for every engine state whose store has
the shape every reachable store has (`run_shape`), every protocol version from 1.0 on, every identity and
every well-typed item of any of the 22 operations, `processOperation` never ends in the internal-error
outcome (= the General Failure answer). -/
theorem no_internal_error (policies : Policies) (now : Nat) (e : Engine) (it : Item)
    (hs : StoreShape e.store) (hver : 10 ≤ e.version) (hwt : WellTyped (realCtx policies now) e it) :
    NoInternal (processOperation (realCtx policies now) e it) := by
  have hf := realCtx_facts policies now
  have haf := realCtx_attrFacts policies now
  have hswt : StoreWT e.store := fun o ho => (hs o ho).2
  unfold processOperation
  split
  · exact NoInternal.kerr _ _
  · refine NoInternal.ite (fun _ => NoInternal.kerr _ _) (fun _ => ?_)
    unfold WellTyped at hwt
    split <;> rename_i hpay <;> rw [hpay] at hwt <;> simp only at hwt
    · exact opCreate_noInternal hf hwt.1 hwt.2
    · exact opCreateKeyPair_noInternal hf hwt.1 hwt.2.1 hwt.2.2.1 hwt.2.2.2
    · exact opRegister_noInternal hwt
    · exact opDeriveKey_noInternal hf hswt hwt.1 hwt.2.1 hwt.2.2
    · exact opLocate_noInternal hwt
    · rcases hwt with hop | hop
      · subst hop; exact get_plain_noInternal _ _ _ _ _ _
      · exact get_wrapped_noInternal _ _ _ _ _ _ _ hop
    · exact (get_attributes_noInternal policies now e _ _).1
    · exact (get_attributes_noInternal policies now e _ []).2
    · exact opActivate_noInternal _ _ _
    · exact opRevoke_noInternal _ _ _ _
    · exact opDestroy_noInternal _ _ _
    · exact opQuery_noInternal _ _ hwt
    · exact opDiscoverVersions_noInternal _ _ _
    · exact (crypto_ops_noInternal _ _ _ _ _ hwt).1
    · exact (crypto_ops_noInternal _ _ _ _ _ hwt).2.1
    · exact (crypto_ops_noInternal _ _ _ _ _ hwt).2.2.1
    · exact (crypto_ops_noInternal _ _ _ _ _ hwt).2.2.2
    · exact mac_noInternal _ _ _ _ _ _ hwt
    · exact opSetAttribute_noInternal hwt
    · exact opModifyAttribute_noInternal haf (fun o ho => (hs o ho).1) hver hwt.1 hwt.2.1 hwt.2.2
    · exact opDeleteAttribute_noInternal haf hwt
    · exact NoInternal.kerr _ _

/-- the store hypothesis of `no_internal_error` holds after every history of decodable requests -/
theorem reachable_store_shape (steps : List Step) (hok : StepsTyped steps) :
    StoreShape (run ⟨Store.empty, none, 12, default⟩ steps).store :=
  run_shape _ steps hok Store.inv_empty StoreShape.empty

/-- non-vacuity: a Create item with a complete template and a 16-byte backend answer is well typed -/
example : WellTyped (realCtx [] 0) ⟨Store.empty, none, 12, default⟩
    ⟨.activate (some "1"), none, .ok ""⟩ := by simp [WellTyped]

/-! ## Executable well-typedness (used by the driver: every request the correspondence sends is checked) -/

def valOkB (c : Ctx) (name : String) (v : AVal) : Bool :=
  (match inspected.lookup name with | some k => v.kind == k | none => true) &&
  (match v with | .int n => name != "Cryptographic Length" || decide (0 ≤ n) | _ => true) &&
  (match v with
   | .other => (match c.rule? name with | some r => r.multivalued | none => true)
   | _ => true)

theorem valOkB_sound {c : Ctx} {name : String} {v : AVal} (h : valOkB c name v = true) : ValOk c name v := by
  simp only [valOkB, Bool.and_eq_true] at h
  obtain ⟨⟨h1, h2⟩, h3⟩ := h
  refine ⟨?_, ?_, ?_⟩
  · intro k hk; rw [hk] at h1; simpa using h1
  · intro hn; cases v <;> simp_all [AVal.nonneg]
  · intro hv r hr; subst hv; simp only [hr] at h3; exact h3

def templateOkB (c : Ctx) : Option Template → Bool
  | none => true
  | some t => t.attrs.all (fun a => valOkB c a.name a.value)

theorem templateOkB_sound {c : Ctx} {t : Option Template} (h : templateOkB c t = true) : TemplateOk? c t := by
  cases t with
  | none => trivial
  | some t =>
    intro a ha
    exact valOkB_sound (List.all_eq_true.mp h a ha)

def attrOkB (c : Ctx) : Option TAttr → Bool
  | none => true
  | some a => valOkB c a.name a.value

def fitsCreateB (c : Ctx) (ver : Nat) (tmpl : Option Template) : Crypto → Bool
  | .ok token =>
    match processTemplate? c ver tmpl with
    | .ok d => (match reqLen d "" with | .ok len => hexBytes token * 8 == len | .error _ => true)
    | .error _ => true
  | .kmipError _ => true
  | _ => false

theorem reqLen_msg {d : AttrDict} {m1 m2 : String} {len : Int} (h : reqLen d m1 = .ok len) : reqLen d m2 = .ok len := by
  unfold reqLen at *
  cases hg : d.get "Cryptographic Length" with
  | none => rw [hg] at h; cases h
  | some col =>
    rw [hg] at h
    cases col with
    | multi vs => cases h
    | single v => cases v <;> first | exact h | cases h

theorem fitsCreateB_sound {c : Ctx} {ver : Nat} {tmpl : Option Template} {cr : Crypto}
    (h : fitsCreateB c ver tmpl cr = true) : cr.FitsCreate c ver tmpl := by
  cases cr with
  | ok token =>
    refine ⟨trivial, ?_⟩
    intro tk d len msg htk hd hlen
    cases htk
    simp only [fitsCreateB, hd, reqLen_msg (m2 := "") hlen, beq_iff_eq] at h
    exact h
  | kmipError r => exact ⟨trivial, fun _ _ _ _ h => by cases h⟩
  | _ => simp [fitsCreateB] at h

def cryptoSaneB : Crypto → Bool
  | .internal => false
  | _ => true

def wellTypedB (c : Ctx) (e : Engine) (it : Item) : Bool :=
  match it.payload with
  | .create _ t => templateOkB c t && fitsCreateB c e.version t it.crypto
  | .createKeyPair cm pr pu => templateOkB c cm && templateOkB c pr && templateOkB c pu &&
      (match it.crypto with | .ok2 .. => true | .kmipError _ => true | _ => false)
  | .register _ t _ => templateOkB c t
  | .deriveKey _ us t _ _ => templateOkB c t && !us.isEmpty &&
      (match it.crypto with | .ok _ => true | .kmipError _ => true | _ => false)
  | .locate _ _ as => as.all (fun a => valOkB c a.name a.value)
  | .get _ _ _ w => w.isNone || (match it.crypto with | .ok _ => true | .kmipError _ => true | _ => false)
  | .query fs => !fs.isEmpty
  | .encrypt .. | .decrypt .. | .sign .. | .signatureVerify .. | .mac .. =>
      (match it.crypto with | .ok _ => true | .verdict _ => true | .kmipError _ => true | _ => false)
  | .setAttribute _ a => valOkB c a.name a.value
  | .modifyAttribute _ a cu nw =>
      (if e.version ≥ 20 then nw.isSome && attrOkB c nw else a.isSome && attrOkB c a) && attrOkB c cu
  | .deleteAttribute _ _ _ cu _ => attrOkB c cu
  | _ => true

theorem attrOkB_sound {c : Ctx} {a : Option TAttr} (h : attrOkB c a = true) :
    ∀ x, a = some x → ValOk c x.name x.value := by
  intro x hx; subst hx; exact valOkB_sound h

/-- the executable check implies the hypothesis of `no_internal_error` -/
theorem wellTypedB_sound {c : Ctx} {e : Engine} {it : Item} (h : wellTypedB c e it = true) : WellTyped c e it := by
  obtain ⟨pl, bid, cr⟩ := it
  cases pl <;> simp only [wellTypedB, WellTyped, Bool.and_eq_true, Bool.or_eq_true] at h ⊢
  case create ot t => exact ⟨templateOkB_sound h.1, fitsCreateB_sound h.2⟩
  case createKeyPair cm pr pu =>
    refine ⟨templateOkB_sound h.1.1.1, templateOkB_sound h.1.1.2, templateOkB_sound h.1.2, ?_⟩
    cases cr <;> simp_all [Crypto.IsPair]
  case register ot t o => exact templateOkB_sound h
  case deriveKey ot us t hd dl =>
    refine ⟨templateOkB_sound h.1.1, ?_, ?_⟩
    · intro hn; subst hn; simp at h
    · cases cr <;> simp_all [Crypto.IsBytes]
  case locate mx off as => intro a ha; exact valOkB_sound (List.all_eq_true.mp h a ha)
  case get u f cp w =>
    rcases h with h | h
    · left; simpa using h
    · right; cases cr <;> simp_all [Crypto.Token]
  case query fs => intro hn; subst hn; simp at h
  case encrypt u p => cases cr <;> simp_all [Crypto.Sane]
  case decrypt u p => cases cr <;> simp_all [Crypto.Sane]
  case sign u p => cases cr <;> simp_all [Crypto.Sane]
  case signatureVerify u p => cases cr <;> simp_all [Crypto.Sane]
  case mac u a d => cases cr <;> simp_all [Crypto.Sane]
  case setAttribute u a => exact valOkB_sound h
  case modifyAttribute u a cu nw =>
    obtain ⟨h1, h2⟩ := h
    refine ⟨?_, ?_, attrOkB_sound h2⟩
    · intro hv
      simp only [hv, if_true, Bool.and_eq_true] at h1
      obtain ⟨n, hn⟩ := Option.isSome_iff_exists.mp h1.1
      exact ⟨n, hn, attrOkB_sound h1.2 n hn⟩
    · intro hv
      simp only [hv, if_false, Bool.and_eq_true] at h1
      obtain ⟨n, hn⟩ := Option.isSome_iff_exists.mp h1.1
      exact ⟨n, hn, attrOkB_sound h1.2 n hn⟩
  case deleteAttribute u n i cu r => exact attrOkB_sound h

end Kmip.C13
