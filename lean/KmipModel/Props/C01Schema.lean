/-
C01, structure layer (M3): round trip of the schema-directed codec, proved ONCE by induction over the field
list and instantiated for every schema of the table and each of the six KMIP versions by `decide`.
-/
import KmipModel.Lemmas.Schema
import KmipModel.Schemas
import KmipModel.Gen.Tables
namespace Kmip.C01Schema
open Kmip.TTLV Kmip.Schema

/-- **Schema round trip**: if tag peeking is unambiguous under `v` and the value conforms to the schema under
`v`, reading what was written gives the value back. -/
theorem schema_decode_encode (s : Schema) (v : Nat) (x : SVal)
    (hu : unambiguous s.fields v = true) (hc : conforms s.fields v x = true) :
    decodeS s v (encodeS s v x) = some x := by
  simp only [decodeS, encodeS, if_true]
  exact decodeFields_encodeFields s.fields v x hu hc

/-- **Re-encoding is stable**: anything the reader accepts is written back child for child (and the decoded
value conforms), as long as the writer emits every field the reader knows. -/
theorem schema_reencode_stable (s : Schema) (v : Nat) (i : Item) (x : SVal)
    (hw : allWritten s.fields = true) (h : decodeS s v i = some x) :
    encodeS s v x = i ∧ conforms s.fields v x = true := by
  cases i with
  | prim t pv => simp [decodeS] at h
  | struct t kids =>
    simp only [decodeS] at h
    split at h
    · rename_i ht
      obtain ⟨he, hc⟩ := encodeFields_decodeFields s.fields v kids x hw h
      exact ⟨by simp only [encodeS, he, ht], hc⟩
    · cases h

/-- hence decode-encode-decode at the structure level -/
theorem schema_decode_encode_decode (s : Schema) (v : Nat) (i : Item) (x : SVal)
    (hw : allWritten s.fields = true) (h : decodeS s v i = some x) :
    decodeS s v (encodeS s v x) = some x := by
  rw [(schema_reencode_stable s v i x hw h).1]; exact h

/-- **No field of a later (or withdrawn) version is emitted**: every child written under `v` is an item of a
field whose version range contains `v`. -/
theorem no_later_field_emitted (s : Schema) (v : Nat) (x : SVal) (hc : conforms s.fields v x = true) :
    ∀ i ∈ encodeFields s.fields v x, ∃ f ∈ s.fields, f.active v = true ∧ f.accepts i = true := by
  intro i hi
  obtain ⟨f, hf, ha, _, hacc⟩ := emitted_is_active s.fields v x hc i hi
  exact ⟨f, hf, ha, hacc⟩

/-- **A field of a later version is rejected**: a child that belongs to no field defined under `v` makes the
reader fail. -/
theorem later_field_rejected (s : Schema) (v : Nat) (kids : List Item) (i : Item) (hi : i ∈ kids)
    (hno : ∀ f ∈ s.fields, f.active v = true → f.accepts i = false) :
    decodeFields s.fields v kids = none := by
  cases h : decodeFields s.fields v kids with
  | none => rfl
  | some x =>
    obtain ⟨f, hf, ha, hacc⟩ := accepted_is_active s.fields v kids x h i hi
    rw [hno f hf ha] at hacc; cases hacc

/-- **Every schema of the table is unambiguous under every version** (the hypothesis of the round trip). -/
theorem all_schemas_unambiguous :
    schemas.all (fun s => versions.all (fun v => unambiguous s.fields v)) = true := by decide +kernel

/-- **Every writer emits every field its reader knows** (the other hypothesis of re-encode stability); before
/repo 15c47ac the ResponseHeader entry failed this: the server correlation value was read and never written -/
theorem all_schemas_written : schemas.all (fun s => allWritten s.fields) = true := by decide +kernel

/-- hence, for every class of the table and every version: round trip and re-encode stability hold outright -/
theorem table_decode_encode (s : Schema) (hs : s ∈ schemas) (v : Nat) (hv : v ∈ versions) (x : SVal)
    (hc : conforms s.fields v x = true) : decodeS s v (encodeS s v x) = some x := by
  have h := all_schemas_unambiguous
  rw [List.all_eq_true] at h
  have h2 := h s hs
  rw [List.all_eq_true] at h2
  exact schema_decode_encode s v x (h2 v hv) hc

theorem table_reencode_stable (s : Schema) (hs : s ∈ schemas) (v : Nat) (i : Item) (x : SVal)
    (h : decodeS s v i = some x) : encodeS s v x = i ∧ conforms s.fields v x = true := by
  have hw := all_schemas_written
  rw [List.all_eq_true] at hw
  exact schema_reencode_stable s v i x (hw s hs) h

/-- F-C01-c repaired: a ResponseHeader carrying a server correlation value is accepted by the reader and
reproduced by the writer -/
def headerWithCorrelation : Item :=
  .struct 0x42007A [
    .struct 0x420069 [.prim 0x42006A (.integer 1), .prim 0x42006B (.integer 4)],
    .prim 0x420092 (.dateTime 1),
    .prim 0x420106 (.textString [0x63]),
    .prim 0x42000D (.integer 0)]

theorem response_header_keeps_correlation_value :
    ∃ x, decodeS responseHeader 14 headerWithCorrelation = some x ∧
      encodeS responseHeader 14 x = headerWithCorrelation := by
  refine ⟨[[.struct 0x420069 [.prim 0x42006A (.integer 1), .prim 0x42006B (.integer 4)]],
           [.prim 0x420092 (.dateTime 1)], [], [.prim 0x420106 (.textString [0x63])],
           [.prim 0x42000D (.integer 0)]], by rfl, by rfl⟩

/-- the CreateKeyPair response template attributes are neither written nor accepted under KMIP 2.0 -/
example : encodeFields createKeyPairResponse.fields 20
    [[.prim 0x420066 (.textString [0x31])], [.prim 0x42006F (.textString [0x32])], [.struct 0x420065 []], []] =
    [.prim 0x420066 (.textString [0x31]), .prim 0x42006F (.textString [0x32])] := by rfl
example : decodeFields createKeyPairResponse.fields 20
    [.prim 0x420066 (.textString [0x31]), .prim 0x42006F (.textString [0x32]), .struct 0x420065 []] = none := by rfl

/-- version gate instance: the KMIP 2.0 Ephemeral flag is not written under 1.4 and rejected when received -/
example : encodeFields requestBatchItem.fields 14
    [[.prim 0x42005C (.enumeration 18)], [.prim 0x420154 (.boolean true)], [], [.struct 0x420079 []], []] =
    [.prim 0x42005C (.enumeration 18), .struct 0x420079 []] := by rfl
example : decodeFields requestBatchItem.fields 14
    [.prim 0x42005C (.enumeration 18), .prim 0x420154 (.boolean true), .struct 0x420079 []] = none := by
  rfl
example : (decodeFields requestBatchItem.fields 20
    [.prim 0x42005C (.enumeration 18), .prim 0x420154 (.boolean true), .struct 0x420079 []]).isSome = true := by
  decide +kernel

/-- the tags of the table are the code's tags (regenerated from /repo on every run) -/
theorem schema_tags_match :
    [Gen.enumTags.lookup "PROTOCOL_VERSION", Gen.enumTags.lookup "PROTOCOL_VERSION_MAJOR",
     Gen.enumTags.lookup "PROTOCOL_VERSION_MINOR", Gen.enumTags.lookup "REQUEST_HEADER",
     Gen.enumTags.lookup "MAXIMUM_RESPONSE_SIZE", Gen.enumTags.lookup "ASYNCHRONOUS_INDICATOR",
     Gen.enumTags.lookup "AUTHENTICATION", Gen.enumTags.lookup "BATCH_ERROR_CONTINUATION_OPTION",
     Gen.enumTags.lookup "BATCH_ORDER_OPTION", Gen.enumTags.lookup "TIME_STAMP", Gen.enumTags.lookup "BATCH_COUNT",
     Gen.enumTags.lookup "RESPONSE_HEADER", Gen.enumTags.lookup "SERVER_HASHED_PASSWORD",
     Gen.enumTags.lookup "SERVER_CORRELATION_VALUE", Gen.enumTags.lookup "BATCH_ITEM",
     Gen.enumTags.lookup "OPERATION", Gen.enumTags.lookup "EPHEMERAL", Gen.enumTags.lookup "UNIQUE_BATCH_ITEM_ID",
     Gen.enumTags.lookup "REQUEST_PAYLOAD", Gen.enumTags.lookup "MESSAGE_EXTENSION",
     Gen.enumTags.lookup "RESULT_STATUS", Gen.enumTags.lookup "RESULT_REASON", Gen.enumTags.lookup "RESULT_MESSAGE",
     Gen.enumTags.lookup "ASYNCHRONOUS_CORRELATION_VALUE", Gen.enumTags.lookup "RESPONSE_PAYLOAD",
     Gen.enumTags.lookup "REQUEST_MESSAGE", Gen.enumTags.lookup "RESPONSE_MESSAGE",
     Gen.enumTags.lookup "CREDENTIAL", Gen.enumTags.lookup "UNIQUE_IDENTIFIER",
     Gen.enumTags.lookup "REVOCATION_REASON", Gen.enumTags.lookup "COMPROMISE_OCCURRENCE_DATE",
     Gen.enumTags.lookup "REVOCATION_REASON_CODE", Gen.enumTags.lookup "REVOCATION_MESSAGE",
     Gen.enumTags.lookup "CRYPTOGRAPHIC_PARAMETERS", Gen.enumTags.lookup "DATA", Gen.enumTags.lookup "MAC_DATA"] =
    [some 0x420069, some 0x42006A, some 0x42006B, some 0x420077, some 0x420050, some 0x420007, some 0x42000C,
     some 0x42000E, some 0x420010, some 0x420092, some 0x42000D, some 0x42007A, some 0x420155, some 0x420106,
     some 0x42000F, some 0x42005C, some 0x420154, some 0x420093, some 0x420079, some 0x420051, some 0x42007F,
     some 0x42007E, some 0x42007D, some 0x420006, some 0x42007C, some 0x420078, some 0x42007B, some 0x420023,
     some 0x420094, some 0x420081, some 0x420021, some 0x420082, some 0x420080, some 0x42002B, some 0x4200C2,
     some 0x4200C6] := by decide +kernel

end Kmip.C01Schema
