/-
C09 at the level of WHOLE REQUESTS (batches) of the engine model: whatever the instant at which the process dies
while a request of any number of items is being served, the store a restarted server finds is the store after a
PREFIX of the request's items, each wholly applied (failed items never leave a trace); it satisfies the store
invariant (can be opened and listed); and once the response was produced every item's effect is durable.
Same hypothesis as `Props/C09.lean`: SQLite's atomic, durable COMMIT (built into `recoverReq`).
The tie to /repo: the C09 check records the statement/COMMIT trace of real multi-item requests (one transaction per
succeeding state-changing item, nothing for a failing one, response last) and kills the process at every boundary.
-/
import KmipModel.TxnRequest
import KmipModel.Lemmas.Run
import KmipModel.Props.C13
namespace Kmip.C09
open Kmip Kmip.Txn

theorem batchSpec_cons_ok {c : Ctx} {stop : Bool} {e : Engine} {it : Item} {eff : Effect} {d : Data} (l : List Item)
    (h : processOperation c e it = .ok (eff, d)) :
    (batchSpec c stop e (it :: l)).1 = (batchSpec c stop (applyEffect e eff) l).1 := by
  simp [batchSpec, h]

theorem batchSpec_cons_err_continue {c : Ctx} {e : Engine} {it : Item} {err : Err} (l : List Item)
    (h : processOperation c e it = .error err) :
    (batchSpec c false e (it :: l)).1 = (batchSpec c false e l).1 := by
  simp [batchSpec, h]

/-- every durable store met during the batch loop is the store after a prefix of the items -/
theorem batchRun_prefix (nw : Effect → Nat) (c : Ctx) (stop : Bool) (e : Engine) (items : List Item) (i : Nat) :
    ∀ p ∈ batchRun nw c stop e items i,
      ∃ j, j ≤ items.length ∧ p.2 = (batchSpec c stop e (items.take j)).1.store := by
  induction items generalizing e i with
  | nil => intro p hp; simp [batchRun] at hp
  | cons it rest ih =>
    intro p hp
    unfold batchRun at hp
    cases h : processOperation c e it with
    | ok r =>
      obtain ⟨eff, d⟩ := r
      rw [h] at hp
      simp only [List.mem_append] at hp
      rcases hp with hp | hp
      · -- inside the item's own transaction
        have hcases : p = (REvent.write i, e.store) ∨ p = (REvent.commit i, (applyEffect e eff).store) := by
          cases eff <;> simp [itemRun] at hp <;> rcases hp with ⟨_, rfl⟩ | rfl <;> simp
        rcases hcases with rfl | rfl
        · exact ⟨0, Nat.zero_le _, by simp [batchSpec]⟩
        · refine ⟨1, by simp, ?_⟩
          simp only [List.take_succ_cons, List.take_zero]
          rw [batchSpec_cons_ok [] h]; simp [batchSpec]
      · obtain ⟨j, hj, hs⟩ := ih (applyEffect e eff) (i + 1) p hp
        refine ⟨j + 1, by simpa using hj, ?_⟩
        simp only [List.take_succ_cons]
        rw [batchSpec_cons_ok _ h]; exact hs
    | error err =>
      rw [h] at hp
      cases stop with
      | true => simp at hp
      | false =>
        simp only [Bool.false_eq_true, if_false] at hp
        obtain ⟨j, hj, hs⟩ := ih e (i + 1) p hp
        refine ⟨j + 1, by simpa using hj, ?_⟩
        simp only [List.take_succ_cons]
        rw [batchSpec_cons_err_continue _ h]; exact hs

theorem batchRun_no_respond (nw : Effect → Nat) (c : Ctx) (stop : Bool) (e : Engine) (items : List Item) (i : Nat) :
    ∀ p ∈ batchRun nw c stop e items i, p.1 ≠ .respond := by
  induction items generalizing e i with
  | nil => intro p hp; simp [batchRun] at hp
  | cons it rest ih =>
    intro p hp
    unfold batchRun at hp
    cases h : processOperation c e it with
    | ok r =>
      obtain ⟨eff, d⟩ := r
      rw [h] at hp
      simp only [List.mem_append] at hp
      rcases hp with hp | hp
      · cases eff <;> simp [itemRun] at hp <;> rcases hp with ⟨_, rfl⟩ | rfl <;> simp
      · exact ih _ _ p hp
    | error err =>
      rw [h] at hp
      cases stop with
      | true => simp at hp
      | false => simp only [Bool.false_eq_true, if_false] at hp; exact ih _ _ p hp

/-- **Crash at any instant of a request**: for every request (any items, Stop or Continue), every engine state,
every number of statements per effect and every crash index `k`, the store found after restart is the store after
the first `j` items of the request for some `j` - every item wholly applied or wholly absent, in request order, and
nothing of a failed item. -/
theorem crash_prefix (nw : Effect → Nat) (c : Ctx) (stop : Bool) (e : Engine) (items : List Item) (k : Nat) :
    ∃ j, j ≤ items.length ∧
      recoverReq e.store (requestRun nw c stop e items) k = (batchSpec c stop e (items.take j)).1.store := by
  unfold recoverReq
  cases hl : ((requestRun nw c stop e items).take k).getLast? with
  | none => exact ⟨0, Nat.zero_le _, by simp [batchSpec]⟩
  | some p =>
    have hm : p ∈ requestRun nw c stop e items := List.mem_of_mem_take (List.mem_of_getLast? hl)
    unfold requestRun at hm
    simp only [List.mem_append, List.mem_singleton] at hm
    rcases hm with hm | rfl
    · exact batchRun_prefix nw c stop e items 0 p hm
    · exact ⟨items.length, Nat.le_refl _, by simp⟩

/-- **Acknowledged requests survive**: if the response had been produced before the process died, the effects of
all the request's items are found after restart. -/
theorem ack_durable_request (nw : Effect → Nat) (c : Ctx) (stop : Bool) (e : Engine) (items : List Item) (k : Nat)
    (ha : ackedReq (requestRun nw c stop e items) k = true) :
    recoverReq e.store (requestRun nw c stop e items) k = (batchSpec c stop e items).1.store := by
  have hk : (batchRun nw c stop e items 0).length < k := by
    refine Nat.lt_of_not_le (fun hle => ?_)
    unfold ackedReq requestRun at ha
    rw [List.take_append_of_le_length hle] at ha
    simp only [List.contains_iff_mem, List.mem_map] at ha
    obtain ⟨p, hp, hr⟩ := ha
    exact batchRun_no_respond nw c stop e items 0 p (List.mem_of_mem_take hp) hr
  unfold recoverReq
  have : (requestRun nw c stop e items).take k = requestRun nw c stop e items := by
    apply List.take_of_length_le
    simp [requestRun]; omega
  rw [this]
  simp [requestRun]

/-- **The store can always be reopened**: every store a crash can leave satisfies the store invariant (distinct
identifiers in row order, all below the AUTOINCREMENT sequence), and no identifier issued before is lost from the
sequence. -/
theorem crash_store_inv (nw : Effect → Nat) (c : Ctx) (stop : Bool) (e : Engine) (items : List Item) (k : Nat)
    (hi : e.store.Inv) :
    (recoverReq e.store (requestRun nw c stop e items) k).Inv ∧
    e.store.Extends (recoverReq e.store (requestRun nw c stop e items) k) := by
  obtain ⟨j, _, hj⟩ := crash_prefix nw c stop e items k
  rw [hj]
  exact batchSpec_inv c stop e (items.take j) hi

/-- The same for `process_request` itself: a request that passes the header checks leaves, at any crash instant, the
store after a prefix of its items run on the normalised engine (no placeholder, the request's version and identity). -/
theorem processRequest_crash_prefix (nw : Effect → Nat) (c : Ctx) (e : Engine) (id : Identity) (r : Request) (k : Nat)
    (rs : List ItemResult) (_h : (processRequest c e id r).2 = .results rs) :
    ∃ j, j ≤ r.items.length ∧
      recoverReq e.store (requestRun nw c r.stop ⟨e.store, none, r.version, id⟩ r.items) k =
        (batchSpec c r.stop ⟨e.store, none, r.version, id⟩ (r.items.take j)).1.store :=
  crash_prefix nw c r.stop ⟨e.store, none, r.version, id⟩ r.items k

/-- and the complete run of that trace ends in the store `process_request` returns -/
theorem processRequest_run_final (nw : Effect → Nat) (c : Ctx) (e : Engine) (id : Identity) (r : Request)
    (rs : List ItemResult) (h : (processRequest c e id r).2 = .results rs) :
    recoverReq e.store (requestRun nw c r.stop ⟨e.store, none, r.version, id⟩ r.items)
        (requestRun nw c r.stop ⟨e.store, none, r.version, id⟩ r.items).length =
      (processRequest c e id r).1.store := by
  rcases processRequest_cases c e id r with ⟨_, rsn, m, hr⟩ | hb
  · rw [hr] at h; cases h
  · rw [hb]
    unfold recoverReq
    rw [List.take_of_length_le (Nat.le_refl _)]
    simp [requestRun]

/-! Non-vacuity: a Continue batch [Create, failing Activate, Create] on the real rule table: 7 events; a crash after
the 4th event (inside the second Create's transaction) leaves exactly the first key; the failing item left nothing. -/
def demoCtxR : Ctx := C13.realCtx [] 5
def demoTmpl : Template := ⟨0, [⟨"Cryptographic Algorithm", none, .enum 3⟩, ⟨"Cryptographic Length", none, .int 128⟩,
  ⟨"Cryptographic Usage Mask", none, .int 12⟩]⟩
def mkKey : Item := ⟨.create 2 (some demoTmpl), some "a", .ok "000102030405060708090a0b0c0d0e0f"⟩
def failing : Item := ⟨.activate (some "77"), some "b", .internal⟩
def e12 : Engine := { Engine.init with version := 12 }
example : ((requestRun (fun _ => 2) demoCtxR false e12 [mkKey, failing, mkKey]).map (fun p => (p.1, p.2.objs.length))) =
    [(.write 0, 0), (.write 0, 0), (.commit 0, 1), (.write 2, 1), (.write 2, 1), (.commit 2, 2), (.respond, 2)] := by
  decide +kernel
example : (recoverReq e12.store (requestRun (fun _ => 2) demoCtxR false e12 [mkKey, failing, mkKey]) 4).objs.length = 1 ∧
    ackedReq (requestRun (fun _ => 2) demoCtxR false e12 [mkKey, failing, mkKey]) 6 = false ∧
    ackedReq (requestRun (fun _ => 2) demoCtxR false e12 [mkKey, failing, mkKey]) 7 = true := by
  decide +kernel

end Kmip.C09
