/-
C03 — Access control: nothing happens to an object without a policy grant.

Part 1 (this file, decision logic): the decision function of the engine model is
characterised exactly by `Grant`, the property's sentence written as a Prop.
Part 2 (engine level: denied requests have no effect, masked text, Locate only
lists permitted objects, owner immutable) is in Props/C03Engine.lean.
-/
import KmipModel.Policy
namespace Kmip.C03
open Kmip

/-- The permission a policy section assigns to (object type, operation), if any. -/
def sectionPerm (sec : ObjTable) (otype op : Nat) : Option Perm :=
  (sec.lookup otype).bind (fun t => t.lookup op)

/-- A section grants: 'allow all' to anyone, 'allow owner' only to the owner. -/
def GrantIn (sec : ObjTable) (user owner : Option String) (otype op : Nat) : Prop :=
  sectionPerm sec otype op = some .allowAll ∨
  (sectionPerm sec otype op = some .allowOwner ∧ user = owner)

/-- The section of policy `b` that applies to one group entry of the identity
(`none` = no group information; the empty group name selects `preset`, as in the code). -/
def SectionFor (b : Bundle) (group : Option String) (sec : ObjTable) : Prop :=
  match group with
  | none => b.preset = some sec
  | some g => if g = "" then b.preset = some sec
              else ∃ gs, b.groups = some gs ∧ gs.lookup g = some sec

/-- The property's grant condition: the object's policy exists and, without group
information, its preset section grants; with group information, the section of
at least one of the requester's groups grants (most permissive wins). -/
def Grant (ps : Policies) (name : String) (id : Identity) (owner : Option String) (otype op : Nat) : Prop :=
  ∃ b, ps.lookup name = some b ∧
    match id.groups with
    | none => ∃ sec, SectionFor b none sec ∧ GrantIn sec id.user owner otype op
    | some gs => ∃ g, g ∈ gs ∧ ∃ sec, SectionFor b (some g) sec ∧ GrantIn sec id.user owner otype op

theorem lookup_isEmpty {α} (l : List (Nat × α)) (k : Nat) (h : l.isEmpty = true) : l.lookup k = none := by
  cases l <;> simp_all

theorem relevantSection_eq_some (ps : Policies) (name : String) (group : Option String) (sec : ObjTable)
    (h : relevantSection ps name group = some sec) :
    ∃ b, ps.lookup name = some b ∧ SectionFor b group sec := by
  unfold relevantSection at h
  split at h
  · simp at h
  · rename_i b hb
    refine ⟨b, hb, ?_⟩
    split at h
    · simp at h
    · cases group with
      | none => simpa [SectionFor] using h
      | some g =>
        simp only at h
        unfold SectionFor
        by_cases hg : g = ""
        · simpa [hg] using h
        · simp only [hg, if_false] at h ⊢
          split at h
          · simp at h
          · rename_i gs hgs
            split at h
            · simp at h
            · split at h
              · simp at h
              · rename_i t ht
                split at h
                · simp at h
                · exact ⟨gs, hgs, by simpa [ht] using h⟩

theorem sectionFor_relevant (ps : Policies) (name : String) (group : Option String) (b : Bundle) (sec : ObjTable)
    (hb : ps.lookup name = some b) (hs : SectionFor b group sec) (hne : sec.isEmpty = false) :
    relevantSection ps name group = some sec := by
  unfold relevantSection
  simp only [hb]
  cases group with
  | none =>
    simp only [SectionFor] at hs
    simp [Bundle.isEmpty, hs]
  | some g =>
    unfold SectionFor at hs
    by_cases hg : g = ""
    · simp only [hg, if_true] at hs
      simp [Bundle.isEmpty, hs, hg]
    · simp only [hg, if_false] at hs
      obtain ⟨gs, hgs, hl⟩ := hs
      have hgne : gs.isEmpty = false := by
        cases gs with
        | nil => simp at hl
        | cons _ _ => rfl
      simp [Bundle.isEmpty, hgs, hg, hl, hne, hgne]

/-- `is_allowed` is exactly "the applicable section grants". -/
theorem isAllowed_iff (ps : Policies) (name : String) (user group owner : Option String) (otype op : Nat) :
    isAllowed ps name user group owner otype op = true ↔
    ∃ b sec, ps.lookup name = some b ∧ SectionFor b group sec ∧ GrantIn sec user owner otype op := by
  constructor
  · intro h
    unfold isAllowed at h
    split at h
    · simp at h
    · rename_i sec hsec
      obtain ⟨b, hb, hs⟩ := relevantSection_eq_some ps name group sec hsec
      refine ⟨b, sec, hb, hs, ?_⟩
      split at h
      · simp at h
      · rename_i ot hot
        split at h
        · simp at h
        · split at h
          · simp at h
          · rename_i hop; left; simp [sectionPerm, hot, hop]
          · rename_i hop; right; exact ⟨by simp [sectionPerm, hot, hop], by simpa using h⟩
          · simp at h
          · simp at h
  · rintro ⟨b, sec, hb, hs, hg⟩
    have hne : sec.isEmpty = false := by
      cases sec with
      | nil => rcases hg with h | ⟨h, _⟩ <;> simp [sectionPerm] at h
      | cons _ _ => rfl
    unfold isAllowed
    rw [sectionFor_relevant ps name group b sec hb hs hne]
    simp only
    rcases hg with h | ⟨h, hu⟩
    all_goals
      unfold sectionPerm at h
      cases hot : sec.lookup otype with
      | none => simp [hot] at h
      | some ot =>
        simp only [hot, Option.bind_some] at h
        have : ot.isEmpty = false := by
          cases ot with
          | nil => simp at h
          | cons _ _ => rfl
        simp [*]

/-- **Soundness and completeness of the decision**: the engine allows exactly when
the property's grant condition holds. -/
theorem allowed_iff_grant (ps : Policies) (name : String) (id : Identity) (owner : Option String)
    (otype op : Nat) :
    allowedByPolicy ps name id owner otype op = true ↔ Grant ps name id owner otype op := by
  unfold allowedByPolicy Grant
  cases hgs : id.groups with
  | none =>
    simp only [isAllowed_iff]
    constructor
    · rintro ⟨b, sec, hb, hs, hg⟩; exact ⟨b, hb, sec, hs, hg⟩
    · rintro ⟨b, hb, sec, hs, hg⟩; exact ⟨b, sec, hb, hs, hg⟩
  | some gs =>
    simp only [List.any_eq_true, isAllowed_iff]
    constructor
    · rintro ⟨g, hg, b, sec, hb, hs, hgr⟩; exact ⟨b, hb, g, hg, sec, hs, hgr⟩
    · rintro ⟨b, hb, g, hg, sec, hs, hgr⟩; exact ⟨g, hg, b, sec, hb, hs, hgr⟩

/-- 'allow all' … to anyone; 'allow owner' only to the identity that created the
object; anything else — missing policy, section, object-type or operation entry,
`DISALLOW_ALL`, any other value — to nobody. -/
theorem default_deny (ps : Policies) (name : String) (id : Identity) (owner : Option String) (otype op : Nat)
    (h : ∀ b, ps.lookup name = some b → ∀ g sec, SectionFor b g sec →
          sectionPerm sec otype op ≠ some .allowAll ∧ sectionPerm sec otype op ≠ some .allowOwner) :
    allowedByPolicy ps name id owner otype op = false := by
  cases hh : allowedByPolicy ps name id owner otype op with
  | false => rfl
  | true =>
    rw [allowed_iff_grant] at hh
    obtain ⟨b, hb, hrest⟩ := hh
    cases hgs : id.groups with
    | none =>
      simp only [hgs] at hrest
      obtain ⟨sec, hs, hg⟩ := hrest
      have := h b hb none sec hs
      rcases hg with h1 | ⟨h1, _⟩ <;> simp_all
    | some gs =>
      simp only [hgs] at hrest
      obtain ⟨g, _, sec, hs, hg⟩ := hrest
      have := h b hb (some g) sec hs
      rcases hg with h1 | ⟨h1, _⟩ <;> simp_all

theorem missing_policy_denies (ps : Policies) (name : String) (id : Identity) (owner : Option String)
    (otype op : Nat) (h : ps.lookup name = none) : allowedByPolicy ps name id owner otype op = false := by
  apply default_deny
  intro b hb; simp [h] at hb

/-- 'allow owner' grants only to the owner. -/
theorem allow_owner_only_owner (ps : Policies) (name : String) (id : Identity) (owner : Option String)
    (otype op : Nat)
    (hperm : ∀ b, ps.lookup name = some b → ∀ g sec, SectionFor b g sec →
          sectionPerm sec otype op ≠ some .allowAll)
    (h : allowedByPolicy ps name id owner otype op = true) : id.user = owner := by
  rw [allowed_iff_grant] at h
  obtain ⟨b, hb, hrest⟩ := h
  cases hgs : id.groups with
  | none =>
    simp only [hgs] at hrest
    obtain ⟨sec, hs, hg⟩ := hrest
    rcases hg with h1 | ⟨_, h2⟩
    · exact absurd h1 (hperm b hb none sec hs)
    · exact h2
  | some gs =>
    simp only [hgs] at hrest
    obtain ⟨g, _, sec, hs, hg⟩ := hrest
    rcases hg with h1 | ⟨_, h2⟩
    · exact absurd h1 (hperm b hb (some g) sec hs)
    · exact h2

/-- Without group information only the preset section decides. -/
theorem no_groups_preset_only (ps : Policies) (name : String) (user owner : Option String) (otype op : Nat) :
    allowedByPolicy ps name ⟨user, none⟩ owner otype op = true ↔
    ∃ b sec, ps.lookup name = some b ∧ b.preset = some sec ∧ GrantIn sec user owner otype op := by
  rw [allowed_iff_grant]
  simp only [Grant, SectionFor]
  constructor
  · rintro ⟨b, hb, sec, hs, hg⟩; exact ⟨b, sec, hb, hs, hg⟩
  · rintro ⟨b, sec, hb, hs, hg⟩; exact ⟨b, hb, sec, hs, hg⟩

/-- With group information the most permissive applicable group section decides:
adding a group never removes a grant. -/
theorem groups_most_permissive (ps : Policies) (name : String) (user owner : Option String)
    (gs : List String) (g : String) (otype op : Nat)
    (h : allowedByPolicy ps name ⟨user, some gs⟩ owner otype op = true) :
    allowedByPolicy ps name ⟨user, some (g :: gs)⟩ owner otype op = true := by
  simp only [allowedByPolicy, List.any_cons, Bool.or_eq_true] at *
  exact Or.inr h

/-- Observation O-1 (completeness gap, *not* a violation of "only if"): with group
information and a policy that defines no `groups` section the code denies everything,
although the property text says the preset section would apply. -/
theorem groups_without_group_section_denied (ps : Policies) (name : String) (b : Bundle)
    (user owner : Option String) (gs : List String) (otype op : Nat)
    (hb : ps.lookup name = some b) (hng : b.groups = none) (hg : ∀ g ∈ gs, g ≠ "") :
    allowedByPolicy ps name ⟨user, some gs⟩ owner otype op = false := by
  cases hh : allowedByPolicy ps name ⟨user, some gs⟩ owner otype op with
  | false => rfl
  | true =>
    rw [allowed_iff_grant] at hh
    obtain ⟨b', hb', g, hgm, sec, hs, _⟩ := hh
    rw [hb] at hb'; cases hb'
    simp only [SectionFor, hg g hgm, if_false, hng] at hs
    obtain ⟨_, h, _⟩ := hs
    cases h

/-! Non-vacuity: a concrete policy set meeting the hypotheses used above
(literal, so that editing the built-in policies of /repo cannot break a proof). -/
def demoPolicies : Policies :=
  [("default", ⟨some [(2, [(10, .allowOwner), (8, .allowAll), (20, .disallowAll)])], none⟩),
   ("grp", ⟨some [(2, [(10, .allowOwner)])], some [("g1", [(2, [(10, .allowAll)])]), ("g2", [(2, [(10, .disallowAll)])])]⟩)]

example : Grant demoPolicies "default" ⟨some "alice", none⟩ (some "alice") 2 10 := by
  rw [← allowed_iff_grant]; decide
example : ¬ Grant demoPolicies "default" ⟨some "bob", none⟩ (some "alice") 2 10 := by
  rw [← allowed_iff_grant]; decide
example : Grant demoPolicies "default" ⟨some "bob", none⟩ (some "alice") 2 8 := by
  rw [← allowed_iff_grant]; decide
example : ¬ Grant demoPolicies "default" ⟨some "alice", none⟩ (some "alice") 2 20 := by
  rw [← allowed_iff_grant]; decide
/-- most permissive group wins, in either order -/
example : Grant demoPolicies "grp" ⟨some "bob", some ["g2", "g1"]⟩ (some "alice") 2 10 := by
  rw [← allowed_iff_grant]; decide
example : ¬ Grant demoPolicies "grp" ⟨some "bob", some ["g2"]⟩ (some "alice") 2 10 := by
  rw [← allowed_iff_grant]; decide
/-- O-1 witness: group information + preset-only policy ⇒ denied even for the owner. -/
example : allowedByPolicy demoPolicies "default" ⟨some "alice", some ["g1"]⟩ (some "alice") 2 10 = false := by
  decide
/-- hypotheses of `default_deny` are satisfiable -/
example : ∀ b, demoPolicies.lookup "default" = some b → ∀ g sec, SectionFor b g sec →
    sectionPerm sec 2 20 ≠ some .allowAll ∧ sectionPerm sec 2 20 ≠ some .allowOwner := by
  intro b hb g sec hs
  simp [demoPolicies, List.lookup] at hb
  subst hb
  cases g with
  | none => simp [SectionFor] at hs; subst hs; decide
  | some g =>
    simp only [SectionFor] at hs
    split at hs
    · simp at hs; subst hs; decide
    · obtain ⟨gs, h, _⟩ := hs; simp at h

end Kmip.C03
