/-
C16 — Protocol version is honoured: refusal of unsupported versions, per-operation
and per-attribute gating, Query / DiscoverVersions answers.
(The version echo in the response header and the version-conditional message
fields belong to the session / codec models: Props/C12 and Props/C01.)
-/
import KmipModel.Lemmas.Run
import KmipModel.Gen.Tables
namespace Kmip.C16
open Kmip

/-! ### the model's tables are the code's tables (regenerated from /repo on every run) -/

/-- the decorator argument of every dispatched operation, as probed on the live engine -/
theorem model_min_versions_match :
    Gen.opMinVersion.all (fun p => minVersion p.1 == some p.2) = true := by decide +kernel

/-- the engine dispatches exactly the operations the model dispatches -/
theorem model_dispatch_complete :
    Gen.enumOperation.all (fun p => (minVersion p.2).isSome == (Gen.opMinVersion.lookup p.2).isSome) = true := by
  decide +kernel

/-- **Every operation advertised by Query under a version is available under it.** -/
theorem query_ops_available :
    Gen.queryOperations.all (fun vq => vq.2.all (fun op =>
      match Gen.opMinVersion.lookup op with
      | some mv => decide (mv ≤ vq.1)
      | none => false)) = true := by decide +kernel

/-- the model's Query answer is the engine's, version by version -/
theorem model_query_matches :
    Gen.queryOperations.all (fun vq =>
      match opQuery { Engine.init with version := vq.1 } [1] with
      | .ok (_, .ops ops _) => ops == vq.2
      | _ => false) = true := by decide +kernel

/-- **DiscoverVersions lists exactly the versions the server accepts, newest first.** -/
theorem discover_lists_supported_desc :
    Gen.discoverAll = Gen.supportedVersions ∧
    Gen.supportedVersions.Pairwise (fun a b => b < a) := by decide +kernel

/-! ### gating in the engine model -/

/-- a version the server does not list is refused and nothing is executed -/
theorem unsupported_version_refused (c : Ctx) (e : Engine) (id : Identity) (r : Request)
    (h : c.supportedVersions.contains r.version = false) :
    (processRequest c e id r).2 = .rejected Rsn.invalidMessage "KMIP version is not supported by the server." ∧
    (processRequest c e id r).1.store = e.store := by
  have hn : ¬ (r.version ∈ c.supportedVersions) := by
    intro hm; rw [List.contains_iff_mem.mpr hm] at h; cases h
  simp [processRequest, hn]

/-- an operation introduced in a later version is never accepted from an earlier one -/
theorem op_below_min_version_refused (c : Ctx) (e : Engine) (it : Item) (mv : Nat)
    (hm : minVersion it.payload.op = some mv) (hv : e.version < mv) :
    processOperation c e it =
      .error (.kmip Rsn.operationNotSupported "operation is not supported by this KMIP version.") := by
  simp [processOperation, hm, hv, kerr]

/-- …and an operation the server does not implement is refused under every version -/
theorem undispatched_refused (c : Ctx) (e : Engine) (it : Item) (hm : minVersion it.payload.op = none) :
    processOperation c e it = .error (.kmip Rsn.operationNotSupported "operation is not supported by the server.") := by
  simp [processOperation, hm, kerr]

/-- DiscoverVersions answers with supported versions only (in the client's order when it
sent a list) -/
theorem discover_only_supported (c : Ctx) (e : Engine) (vs : List Nat) (eff : Effect) (out : List Nat)
    (h : opDiscoverVersions c e vs = .ok (eff, .versions out)) : ∀ v ∈ out, v ∈ c.supportedVersions := by
  unfold opDiscoverVersions at h
  split at h
  · inv h; obtain ⟨_, hd⟩ := h; simp only [Data.versions.injEq] at hd; subst hd; exact fun v hv => hv
  · inv h; obtain ⟨_, hd⟩ := h; simp only [Data.versions.injEq] at hd; subst hd
    intro v hv
    have := (List.mem_filter.mp hv).2
    simpa using this

theorem getAttrsStep_gated (c : Ctx) (ver : Nat) (o : Obj) (name : String) (as : List TAttr)
    (h : getAttrsStep c ver o name = .ok as) :
    ∀ a ∈ as, a.name = name ∧ c.isSupported ver name = true ∧ c.isDeprecated ver name = .ok false := by
  unfold getAttrsStep at h
  inv h
  split at h
  · inv h; subst h; simp
  · rename_i hsup
    inv h
    obtain ⟨dep, hdep, h⟩ := h
    split at h
    · inv h; subst h; simp
    · rename_i hnd
      have hdep' : c.isDeprecated ver name = .ok false := by rw [hdep]; cases dep <;> simp_all
      inv h
      obtain ⟨app, _, h⟩ := h
      split at h
      · inv h; subst h; simp
      · split at h
        · inv h; subst h; simp
        · inv h
          obtain ⟨mv, _, h⟩ := h
          have hs : c.isSupported ver name = true := by simpa using hsup
          split at h
          · split at h
            · inv h; subst h
              intro a ha
              simp only [List.mem_map] at ha
              obtain ⟨_, _, rfl⟩ := ha
              exact ⟨rfl, hs, hdep'⟩
            · inv h
          · split at h
            · inv h; subst h
              intro a ha
              simp only [List.mem_singleton] at ha
              subst ha
              exact ⟨rfl, hs, hdep'⟩
            · inv h

/-- **Attributes of a later version, or deprecated in this one, are never reported.**
Whatever GetAttributes / GetAttributeList return under version `ver` is supported and
not deprecated at `ver` according to the rule table. -/
theorem attrs_reported_supported_not_deprecated (c : Ctx) (ver : Nat) (o : Obj) (names : List String)
    (as : List TAttr) (h : getAttrs c ver o names = .ok as) :
    ∀ a ∈ as, c.isSupported ver a.name = true ∧ c.isDeprecated ver a.name = .ok false := by
  unfold getAttrs at h
  inv h
  obtain ⟨parts, hp, rfl⟩ := h
  intro a ha
  simp only [List.mem_flatten] at ha
  obtain ⟨part, hpart, hap⟩ := ha
  generalize (if names.isEmpty = true then List.map (fun x => x.name) c.rules else names) = ns at hp
  induction ns generalizing parts with
  | nil => simp [List.mapM_nil, pure, Except.pure] at hp; subst hp; simp at hpart
  | cons n rest ih =>
    rw [List.mapM_cons] at hp
    inv hp
    obtain ⟨p1, hp1, ps, hps, rfl⟩ := hp
    simp only [List.mem_cons] at hpart
    rcases hpart with rfl | hpart
    · have := getAttrsStep_gated c ver o n _ hp1 a hap
      rw [this.1]; exact ⟨this.2.1, this.2.2⟩
    · exact ih ps hpart hps

/-- an attribute not (yet) supported under the request's version is refused in templates -/
theorem unsupported_attribute_refused (c : Ctx) (ver : Nat) (d : AttrDict) (a : TAttr)
    (h : c.isSupported ver a.name = false) :
    processTemplateStep c ver d a = .error (.kmip Rsn.invalidField s!"The {a.name} attribute is unsupported.") := by
  simp [processTemplateStep, h, kerr]

def realCtx : Ctx := { rules := Gen.attrRules, policies := [], now := 0, supportedVersions := Gen.supportedVersions }

def okFalse : R Bool → Bool
  | .ok false => true
  | _ => false
def okTrue : R Bool → Bool
  | .ok true => true
  | _ => false

/-- the real table: Sensitive exists from 1.4 on; Operation Policy Name is gone in 2.0 -/
theorem sensitive_and_policy_name_gating :
    (realCtx.isSupported 13 "Sensitive" = false ∧ realCtx.isSupported 14 "Sensitive" = true) ∧
    (okFalse (realCtx.isDeprecated 14 "Operation Policy Name") = true ∧
     okTrue (realCtx.isDeprecated 20 "Operation Policy Name") = true) := by
  decide +kernel

end Kmip.C16
