/-
C10 for the ENGINE MODEL: the lock model (M11, `Conc.lean`) instantiated with what the sessions really share - the
engine (store and transient fields) and the answers given so far - and with `process_request` (M5) as the body of
the critical section.  Whatever schedule the lock permits, the engine and every session's answers are those of
serving the requests one at a time in lock-acquisition order (`sessions_serializable`), and each answer is the answer
of a freshly opened engine on the store of that moment to the SENDING session's own request under the SENDING
session's own identity (`answers_are_own`, through C11's isolation theorem): nothing of a concurrently served
session's identity, protocol version or ID placeholder can enter.
Same partiality as `Props/C10.lean`: CPython's scheduler and SQLite/SQLAlchemy thread safety are exercised by the
threaded correspondence, not modelled; that every session-facing entry point which writes shared state takes the lock
is the table obligation `C10.entry_points_locked`.
-/
import KmipModel.Props.C10
import KmipModel.Props.C11
namespace Kmip.C10E
open Kmip Kmip.Conc

/-- what the sessions share: the engine, and the log of (session, answer) -/
abbrev Shared := Engine × List (Nat × ReqResult)

/-- one request served under the engine lock -/
def serveStep (c : Ctx) (t : Nat) (id : Identity) (r : Request) (x : Shared) : Shared :=
  ((processRequest c x.1 id r).1, x.2 ++ [(t, (processRequest c x.1 id r).2)])

def serve (c : Ctx) (t : Nat) (p : Identity × Request) : Req Shared := ⟨[serveStep c t p.1 p.2]⟩

/-- the sessions: each with the identity its certificate established and its requests in order -/
abbrev Sessions := Nat → List (Identity × Request)

def mkSys (c : Ctx) (e : Engine) (ss : Sessions) : Sys Shared :=
  ⟨(e, []), none, fun t => ⟨(ss t).map (serve c t), none⟩⟩

/-- serving one request at a time, in the given order of sessions -/
def serveSerial (c : Ctx) : Shared → Sessions → List Nat → Shared
  | x, _, [] => x
  | x, ss, t :: ts =>
    match ss t with
    | [] => serveSerial c x ss ts
    | p :: rest => serveSerial c (serveStep c t p.1 p.2 x) (fun u => if u = t then rest else ss u) ts

theorem runSerial_serve (c : Ctx) (x : Shared) (ss : Sessions) (order : List Nat) :
    runSerial x (fun u => (ss u).map (serve c u)) order = serveSerial c x ss order := by
  induction order generalizing x ss with
  | nil => rfl
  | cons t ts ih =>
    simp only [runSerial, serveSerial]
    cases h : ss t with
    | nil => simp only [List.map_nil]; exact ih x ss
    | cons p rest =>
      simp only [List.map_cons]
      rw [← ih]
      simp only [serve, applySteps, List.foldl]
      apply C10.runSerial_congr
      intro u
      by_cases hu : u = t
      · subst hu; simp
      · simp [hu]

/-- **Serializability of the served sessions.**  For every number of sessions, every list of requests per session
and every schedule the engine lock permits that ends with no request in progress, the engine state and the log of
answers equal those of serving the requests one at a time in lock-acquisition order (which takes each session's
requests in the session's own order). -/
theorem sessions_serializable (c : Ctx) (e : Engine) (ss : Sessions) (sched : List Ev) (s' : Sys Shared)
    (h : execAll (mkSys c e ss) sched = some s') (hq : s'.lock = none) :
    s'.shared = serveSerial c (e, []) ss (acquireOrder sched) := by
  have := C10.locked_serializable_quiescent (mkSys c e ss) s' sched rfl (fun _ => rfl) hq h
  rw [this]
  exact runSerial_serve c (e, []) ss (acquireOrder sched)

/-- an answer in the log is the sending session's own: the answer to one of ITS requests, under ITS identity, of an
engine freshly opened on some store (C11: no transient state of anybody enters) -/
def Own (c : Ctx) (ss : Sessions) (entry : Nat × ReqResult) : Prop :=
  ∃ (id : Identity) (r : Request) (e : Engine), (id, r) ∈ ss entry.1 ∧ entry.2 = (processRequest c e.restart id r).2

theorem serveSerial_own (c : Ctx) (ss0 : Sessions) (x : Shared) (ss : Sessions) (order : List Nat)
    (hsub : ∀ u p, p ∈ ss u → p ∈ ss0 u) :
    ∀ entry ∈ (serveSerial c x ss order).2, entry ∈ x.2 ∨ Own c ss0 entry := by
  induction order generalizing x ss with
  | nil => intro entry h; exact Or.inl h
  | cons t ts ih =>
    intro entry hentry
    simp only [serveSerial] at hentry
    cases h : ss t with
    | nil => rw [h] at hentry; exact ih x ss hsub entry hentry
    | cons p rest =>
      rw [h] at hentry
      have hsub' : ∀ u q, q ∈ (fun u => if u = t then rest else ss u) u → q ∈ ss0 u := by
        intro u q hq
        by_cases hu : u = t
        · subst hu
          simp only [if_true] at hq
          exact hsub u q (by rw [h]; exact List.mem_cons_of_mem _ hq)
        · simp only [hu, if_false] at hq; exact hsub u q hq
      rcases ih _ _ hsub' entry hentry with hin | hown
      · simp only [serveStep, List.mem_append, List.mem_singleton] at hin
        rcases hin with hin | rfl
        · exact Or.inl hin
        · refine Or.inr ⟨p.1, p.2, x.1, hsub t p (by rw [h]; exact List.mem_cons_self), ?_⟩
          exact (C11.request_isolation c x.1 p.1 p.2).1
      · exact Or.inr hown

/-- **Every answer is the sender's own**, for every schedule the lock permits. -/
theorem answers_are_own (c : Ctx) (e : Engine) (ss : Sessions) (sched : List Ev) (s' : Sys Shared)
    (h : execAll (mkSys c e ss) sched = some s') (hq : s'.lock = none) :
    ∀ entry ∈ s'.shared.2, Own c ss entry := by
  rw [sessions_serializable c e ss sched s' h hq]
  intro entry hentry
  rcases serveSerial_own c ss (e, []) ss (acquireOrder sched) (fun _ _ hp => hp) entry hentry with hin | hown
  · cases hin
  · exact hown

/-- the store invariant survives every permitted schedule -/
theorem concurrent_store_inv (c : Ctx) (e : Engine) (ss : Sessions) (sched : List Ev) (s' : Sys Shared)
    (h : execAll (mkSys c e ss) sched = some s') (hq : s'.lock = none) (hi : e.store.Inv) :
    s'.shared.1.store.Inv := by
  rw [sessions_serializable c e ss sched s' h hq]
  generalize acquireOrder sched = order
  suffices ∀ (x : Shared) (ss : Sessions), x.1.store.Inv → (serveSerial c x ss order).1.store.Inv from this (e, []) ss hi
  induction order with
  | nil => intro x _ hx; exact hx
  | cons t ts ih =>
    intro x ss hx
    simp only [serveSerial]
    cases h : ss t with
    | nil => exact ih x ss hx
    | cons p rest => exact ih _ _ (processRequest_inv c x.1 p.1 p.2 hx).1

/-! Non-vacuity: two sessions, the second gets the lock first. -/
def demoCtx : Ctx := { rules := [], policies := [], now := 5, supportedVersions := [12] }
def q (v : Nat) : Request := { version := v, timeStamp := none, async := none, batchOption := none, maxResponseSize := none, items := [] }
def demoSessions : Sessions := fun t => if t = 0 then [(⟨some "alice", none⟩, q 12)] else if t = 1 then [(⟨some "bob", none⟩, q 99)] else []
example : ((execAll (mkSys demoCtx Engine.init demoSessions)
    [.acquire 1, .step 1, .release 1, .acquire 0, .step 0, .release 0]).map (fun s => s.shared.2.map (·.1))) = some [1, 0] := by
  decide +kernel

end Kmip.C10E
