/-
C14, "Locate returns exactly the objects … that match every given attribute filter": a filter on an attribute that is
NOT APPLICABLE to an object's type never matches it (`C14.not_applicable_never_matches`), so which objects a Locate can
return depends on the applies-to column of the attribute rule table, REGENERATED from `kmip/services/server/policy.py`
on every run (`Gen/Tables.lean`, `attrRules`).  For the thirteen attributes the property lists as filters that column
must be what the KMIP specification (1.0-1.4 §3 "Applies to Object Types" rows) says - written down here from the
specification, independent of the code: object types 1 Certificate, 2 Symmetric Key, 3 Public Key, 4 Private Key,
5 Split Key, 6 Template, 7 Secret Data, 8 Opaque Object.
(The seeded change `C14-initial-date-not-applicable-to-opaque` rewrote the table with named tuples and gave Initial
Date the "all but Opaque Object" tuple of its neighbours: every dated Locate then silently dropped opaque objects.)
-/
import KmipModel.Gen.Tables
namespace Kmip.C14Table
open Kmip

def allObjects : List Nat := [1, 2, 3, 4, 5, 6, 7, 8]

/-- KMIP specification, "Applies to Object Types" of the filter attributes the property lists -/
def specAppliesTo : List (String × List Nat) := [
  ("Unique Identifier", allObjects),
  ("Name", allObjects),
  ("Object Type", allObjects),
  ("Cryptographic Algorithm", [1, 2, 3, 4, 5, 6]),          -- keys, certificates, templates
  ("Cryptographic Length", [1, 2, 3, 4, 5, 6]),
  ("Certificate Type", [1]),
  ("Cryptographic Usage Mask", [1, 2, 3, 4, 5, 6, 7]),      -- all cryptographic objects, templates
  ("State", [1, 2, 3, 4, 5, 7]),                            -- all cryptographic objects
  ("Initial Date", allObjects),
  ("Operation Policy Name", allObjects),
  ("Object Group", allObjects),
  ("Application Specific Information", allObjects),
  ("Sensitive", allObjects)]

def tableAppliesTo (name : String) : Option (List Nat) :=
  (Gen.attrRules.find? (fun r => r.name == name)).map (·.appliesTo)

/-- **the regenerated table agrees with the specification on every listed filter attribute** -/
theorem listed_filters_apply_as_specified :
    specAppliesTo.all (fun p => tableAppliesTo p.1 == some p.2) = true := by decide +kernel

/-- in particular every stored object type can be found by its Initial Date, Name, group, policy and identifier -/
theorem dated_locate_reaches_every_type :
    ∀ ot ∈ allObjects, ∀ n ∈ ["Initial Date", "Name", "Object Group", "Operation Policy Name", "Unique Identifier"],
      (tableAppliesTo n).any (fun l => l.contains ot) = true := by decide +kernel

end Kmip.C14Table
