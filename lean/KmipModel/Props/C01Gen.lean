/-
C01 / C02 / C16, structure layer over the REGENERATED schema tables (`KmipModel/Gen/SchemasGen.lean`, written on every
run by `harness/gen_schemas.py` from the `read()` and `write()` methods of every Struct class of /repo's
kmip/core): for every class the translator classifies,

 * `gen_read_write_agree`      what read() accepts and what write() emits are the same fields — same tags in the same
                               order, same item kinds, same cardinality class (mandatory ↔ always written, optional ↔
                               written if set, repeated ↔ loop), same version range, stored in / taken from the same
                               attribute, same "at least one" requirement, same first supported version — except the
                               differences listed (and REQUIRED to be exactly as listed) in `kindExceptions` /
                               `min1Exceptions` below;
 * `gen_schemas_unambiguous`,
   `gen_schemas_written`       the hypotheses of the M3 round-trip theorems hold for every regenerated read schema
                               under every version; hence
 * `gen_schema_roundtrip`,
   `gen_schema_reencode_stable`,
   `gen_schema_decode_encode_decode`   the round trip for EVERY translated class and version;
 * `gen_no_later_field_emitted`,
   `gen_later_field_rejected`  (C16) a field whose version range does not contain `v` is neither emitted nor accepted;
 * `hand_table_matches_generated`   the 32 hand-written schemas of `KmipModel/Schemas.lean` (which M14 and the other
                               models use) are the regenerated read schemas of the same name, field for field, except
                               the classes listed in `handDiffers` (which the translator must have left out).

Reading of the statements.  `X.r` is more lenient than X.read() for the classes of `genApprox` (reasons in
`genApproxWhy`: "at least one" of a repeated field, value-dependent rejections, a child whose class is chosen by a
value read earlier); for the others it is the reader's sequencing decisions exactly (checked against the real
readers on every run by `harness/lib/schema_gen_check.py`).  For the classes of `genVersionFromHeader` the version `v`
is the version in the structure's own ProtocolVersion.  A class of `genReadClassMin` raises VersionNotSupported
below that version in read() and in write(); its fields carry that lower bound.
-/
import KmipModel.Gen.SchemasGen
import KmipModel.Props.C01Schema
namespace Kmip.C01Gen
open Kmip.TTLV Kmip.Schema Kmip.SchemaGen

/-! ### where read() and write() of /repo really differ (each shown on the real code by
`harness/lib/schema_gen_check.py` `WITNESSES`; a stale entry breaks `gen_read_write_agree`) -/

/-- (class, field tag, kind the reader accepts, kind the writer emits).
 * GetAttributesRequestPayload / GetAttributeListResponsePayload, Attribute Reference (KMIP 2.0): the reader accepts
   an Enumeration or an AttributeReference structure and keeps the attribute NAME only; the writer always emits the
   Enumeration (get_attributes.py l.157-176 / l.218-227, get_attribute_list.py l.298-317 / l.368-379).  A structure
   reference is therefore re-encoded as an enumeration (same decoded value: decode-encode-decode is stable), and a
   reference to a name that has no tag (vendor attribute) cannot be written back (ValueError): the reader is more
   lenient than the writer; no encodable value fails to round-trip.
 * KeyValue, Key Material: read() has a branch for a STRUCTURE (KeyMaterialStruct) next to the Byte String one
   (objects.py l.2328-2333), `.any` in the table; validate() (called at the end of read(), l.2366) then rejects the
   structure with TypeError, and the constructor / writer only ever hold a KeyMaterial byte string. -/
def kindExceptions : List (String × Nat × Kind × Kind) := [
  ("KeyValue", 0x420043, .any, .prim 8),
  ("GetAttributeListResponsePayload", 0x42013B, .enumOrStruct, .prim 5),
  ("GetAttributesRequestPayload", 0x42013B, .enumOrStruct, .prim 5)]

/-- (class, field tag, reader requires at least one item, writer requires at least one item).
 * (Template, Attribute was listed here until /repo 5cfdcfc: `Template(attributes=[])` was written as an empty
   structure that Template.read rejects - a C01 violation, signature
   `c01:writer-emits-what-reader-rejects:Template.attributes`; the writer now refuses it, the tables agree.)
 * GetAttributeListResponsePayload, Attribute Reference (KMIP 2.0): under 1.x the reader insists on one Attribute
   Name (get_attribute_list.py l.290-295), under 2.0 it does not (l.298-317), while the writer refuses an empty list
   under every version (l.366-385): the 2.0 reader is more lenient than the writer (the decoded value cannot be
   written back, InvalidField); no encodable value fails to round-trip. -/
def min1Exceptions : List (String × Nat × Bool × Bool) := [
  ("GetAttributeListResponsePayload", 0x42013B, false, true)]

/-! ### agreement of the two regenerated tables -/

def kindException (cls : String) (tag : Nat) : Option (Kind × Kind) :=
  (kindExceptions.find? (fun e => e.1 == cls && e.2.1 == tag)).map (fun e => e.2.2)

/-- same tag, cardinality class and version range; same kind, or exactly the listed pair of kinds -/
def fieldAgree (cls : String) (r w : Field) : Bool :=
  r.tag == w.tag && r.card == w.card && r.vmin == w.vmin && r.vmax == w.vmax && r.writes && w.writes &&
  (match kindException cls r.tag with
   | some (kr, kw) => r.kind == kr && w.kind == kw && kr != kw
   | none => r.kind == w.kind)

def fieldsAgree (cls : String) : List Field → List Field → Bool
  | [], [] => true
  | r :: rs, w :: ws => fieldAgree cls r w && fieldsAgree cls rs ws
  | _, _ => false

def schemaAgree (r w : Schema) : Bool :=
  r.name == w.name && r.tag == w.tag && fieldsAgree r.name r.fields w.fields

def schemasAgree : List Schema → List Schema → Bool
  | [], [] => true
  | r :: rs, w :: ws => schemaAgree r w && schemasAgree rs ws
  | _, _ => false

def min1Exception (p : String × Nat) : Option (Bool × Bool) :=
  (min1Exceptions.find? (fun e => e.1 == p.1 && e.2.1 == p.2)).map (fun e => e.2.2)

/-- "at least one" is required by both sides or by neither, except exactly as listed -/
def min1Agree : Bool :=
  (genReadMin1 ++ genWriteMin1).all (fun p =>
    match min1Exception p with
    | some (r, w) => genReadMin1.contains p == r && genWriteMin1.contains p == w
    | none => genReadMin1.contains p && genWriteMin1.contains p) &&
  min1Exceptions.all (fun e =>
    e.2.2.1 != e.2.2.2 && genReadMin1.contains (e.1, e.2.1) == e.2.2.1 && genWriteMin1.contains (e.1, e.2.1) == e.2.2.2)

/-- every listed kind exception names a field of a translated class -/
def kindExceptionsLive : Bool :=
  kindExceptions.all (fun e => genRead.any (fun s => s.name == e.1 && s.fields.any (fun f => f.tag == e.2.1)))

def tablesAgree : Bool :=
  schemasAgree genRead genWrite && genNames == genRead.map (·.name) && min1Agree && kindExceptionsLive &&
  genReadSlots == genWriteSlots && genReadClassMin == genWriteClassMin &&
  genReadSlots.all (fun l => l.all (· != "?"))

theorem schemasAgree_get : ∀ (rs ws : List Schema), schemasAgree rs ws = true →
    ∀ i (h : i < rs.length), ∃ w, ws[i]? = some w ∧ schemaAgree rs[i] w = true := by
  intro rs
  induction rs with
  | nil => intro ws _ i h; cases h
  | cons r rs ih =>
    intro ws hag i h
    cases ws with
    | nil => simp [schemasAgree] at hag
    | cons w ws =>
      simp only [schemasAgree, Bool.and_eq_true] at hag
      cases i with
      | zero => exact ⟨w, rfl, hag.1⟩
      | succ j =>
        obtain ⟨w', hw', ha⟩ := ih ws hag.2 j (by simpa using h)
        exact ⟨w', by simpa using hw', by simpa using ha⟩

/-- **The regenerated reader and writer tables describe the same fields** (modulo the listed, required
differences), checked by the kernel over the tables of this run. -/
theorem gen_read_write_agree : tablesAgree = true := by decide +kernel

/-- … read per class: the `i`-th read schema and the `i`-th write schema agree field for field -/
theorem gen_read_write_agree_at (i : Nat) (h : i < genRead.length) :
    ∃ w, genWrite[i]? = some w ∧ schemaAgree genRead[i] w = true := by
  have h0 := gen_read_write_agree
  simp only [tablesAgree, Bool.and_eq_true] at h0
  exact schemasAgree_get genRead genWrite h0.1.1.1.1.1.1 i h

/-- every field of a regenerated read schema is emitted by the writer (there is a write field for it) -/
theorem gen_schemas_written : genRead.all (fun s => allWritten s.fields) = true := by decide +kernel

/-! ### round trip for every translated class -/

/-- **Tag peeking decides correctly in every regenerated read schema under every version.** -/
theorem gen_schemas_unambiguous :
    genRead.all (fun s => versions.all (fun v => unambiguous s.fields v)) = true := by decide +kernel

theorem gen_unambiguous (s : Schema) (hs : s ∈ genRead) (v : Nat) (hv : v ∈ versions) :
    unambiguous s.fields v = true := by
  have h := gen_schemas_unambiguous
  rw [List.all_eq_true] at h
  have h2 := h s hs
  rw [List.all_eq_true] at h2
  exact h2 v hv

/-- **Round trip for every translated class and version**: a value that conforms to the class's regenerated schema
is read back exactly from what is written. -/
theorem gen_schema_roundtrip (s : Schema) (hs : s ∈ genRead) (v : Nat) (hv : v ∈ versions) (x : SVal)
    (hc : conforms s.fields v x = true) : decodeS s v (encodeS s v x) = some x :=
  C01Schema.schema_decode_encode s v x (gen_unambiguous s hs v hv) hc

/-- **Re-encoding is stable for every translated class**: whatever child sequence the regenerated reader accepts is
written back child for child (for the fields of `kindExceptions` the real writer emits the other kind). -/
theorem gen_schema_reencode_stable (s : Schema) (hs : s ∈ genRead) (v : Nat) (i : Item) (x : SVal)
    (h : decodeS s v i = some x) : encodeS s v x = i ∧ conforms s.fields v x = true := by
  have hw := gen_schemas_written
  rw [List.all_eq_true] at hw
  exact C01Schema.schema_reencode_stable s v i x (hw s hs) h

theorem gen_schema_decode_encode_decode (s : Schema) (hs : s ∈ genRead) (v : Nat) (i : Item) (x : SVal)
    (h : decodeS s v i = some x) : decodeS s v (encodeS s v x) = some x := by
  rw [(gen_schema_reencode_stable s hs v i x h).1]; exact h

/-- the classes whose regenerated reader is the code's reader exactly (no approximation) -/
def genExact : List Schema := genRead.filter (fun s => !genApprox.contains s.name)

theorem genExact_sub (s : Schema) (h : s ∈ genExact) : s ∈ genRead := (List.mem_filter.mp h).1

/-- the round trip stated for the exactly translated classes only -/
theorem gen_schema_roundtrip_exact (s : Schema) (hs : s ∈ genExact) (v : Nat) (hv : v ∈ versions) (x : SVal)
    (hc : conforms s.fields v x = true) :
    decodeS s v (encodeS s v x) = some x ∧
    (∀ i y, decodeS s v i = some y → encodeS s v y = i) :=
  ⟨gen_schema_roundtrip s (genExact_sub s hs) v hv x hc,
   fun i y h => (gen_schema_reencode_stable s (genExact_sub s hs) v i y h).1⟩

/-! ### C16: version gates -/

/-- **No field of a later (or withdrawn) version is emitted**: every child written under `v` belongs to a field whose
version range contains `v`. -/
theorem gen_no_later_field_emitted (s : Schema) (_hs : s ∈ genRead) (v : Nat) (x : SVal)
    (hc : conforms s.fields v x = true) :
    ∀ i ∈ encodeFields s.fields v x, ∃ f ∈ s.fields, f.active v = true ∧ f.accepts i = true :=
  C01Schema.no_later_field_emitted s v x hc

/-- **A field of a later version is not accepted**: a child that belongs to no field defined under `v` makes the
reader fail. -/
theorem gen_later_field_rejected (s : Schema) (_hs : s ∈ genRead) (v : Nat) (kids : List Item) (i : Item)
    (hi : i ∈ kids) (hno : ∀ f ∈ s.fields, f.active v = true → f.accepts i = false) :
    decodeFields s.fields v kids = none :=
  C01Schema.later_field_rejected s v kids i hi hno

/-- the version gates of the regenerated tables: (class, field tag, vmin, vmax) of every field that is not defined
under all six versions (printed for the evidence by `Drivers/SchemaGen.lean`, op `gates`) -/
def genGates : List (String × Nat × Nat × Nat) :=
  genRead.flatMap (fun s => (s.fields.filter (fun f => f.vmin != 10 || f.vmax != 20)).map
    (fun f => (s.name, f.tag, f.vmin, f.vmax)))

/-- a gated field is dead outside its range, in both directions (the gate is the same in read() and write() by
`gen_read_write_agree`) -/
theorem gen_gated_field_inactive (f : Field) (v : Nat) (h : v < f.vmin ∨ f.vmax < v) : f.active v = false := by
  simp only [Field.active, Bool.and_eq_false_iff, decide_eq_false_iff_not, Nat.not_le]
  exact h

/-! ### the hand-written table the other models use -/

/-- hand-written schemas whose class the translator leaves out, with the reason (they stay hand-written; the
dynamic correspondence of `harness/props/c01.py` `schema_phase` is their only tie):
 * ResponseBatchItem — the payload is read only when an Operation was present and the factory knows it
   (messages.py l.415-428): a stream test mixed with a value test;
 * RequestMessage / ResponseMessage — the batch items are read from the ENCLOSING stream, `batch_count` times, and
   nothing checks for trailing data (messages.py l.487-506, l.531-552). -/
def handDiffers : List String := ["ResponseBatchItem", "RequestMessage", "ResponseMessage"]

def fieldSame (a b : Field) : Bool :=
  a.tag == b.tag && a.kind == b.kind && a.card == b.card && a.vmin == b.vmin && a.vmax == b.vmax &&
  a.writes == b.writes

def fieldsSame : List Field → List Field → Bool
  | [], [] => true
  | a :: as, b :: bs => fieldSame a b && fieldsSame as bs
  | _, _ => false

def handMatches (s : Schema) : Bool :=
  match genRead.find? (fun g => g.name == s.name) with
  | some g => g.tag == s.tag && fieldsSame g.fields s.fields && !handDiffers.contains s.name
  | none => handDiffers.contains s.name && genUnrecognised.contains s.name

/-- **The hand-written table is pinned to the source**: each of its schemas is the regenerated read schema of the
same name, or one of the three listed classes the translator does not classify. -/
theorem hand_table_matches_generated : schemas.all handMatches = true := by decide +kernel

theorem hand_schema_is_generated (s : Schema) (hs : s ∈ schemas) (hn : handDiffers.contains s.name = false) :
    ∃ g ∈ genRead, g.name = s.name ∧ g.tag = s.tag ∧ fieldsSame g.fields s.fields = true := by
  have h := hand_table_matches_generated
  rw [List.all_eq_true] at h
  have hm := h s hs
  unfold handMatches at hm
  split at hm
  · rename_i g hg
    simp only [Bool.and_eq_true, beq_iff_eq] at hm
    have hmem := List.mem_of_find?_eq_some hg
    have hname := List.find?_some hg
    exact ⟨g, hmem, by simpa using hname, hm.1.1, hm.1.2⟩
  · simp only [hn, Bool.false_and] at hm
    cases hm

/-! ### what the translator leaves out -/

/-- the classes the translator does not classify on the unchanged tree, with the construct that stops it (the
reasons of this run are in `genUnrecognisedWhy` / schemas_report.json).  The list is pinned so that a change of /repo
that makes a class unclassifiable (and would silently take it out of every theorem above) breaks the build:
 * ServerInformation, KeyMaterialStruct — the content is kept as raw bytes, not read as children;
 * CurrentAttribute, NewAttribute, Attributes — the child's tag is peeked and may be ANY attribute tag the version
   defines (`enums.is_attribute`), the class comes from a factory;
 * ResponseBatchItem, RequestMessage, ResponseMessage — see `handDiffers`;
 * SignRequestPayload, SignResponsePayload — read() never calls `is_oversized`: trailing
   children are accepted and dropped (shown on the real code by schema_gen_check.py; decode-encode-decode is stable,
   so not a round-trip violation, but no field list describes such a reader).  (LocateRequestPayload was in this
   list until /repo ee214ee: for Locate the dropped children can be the FILTERS - a 2.0 Attributes structure under a
   1.x header - which the later-field part of the C16 check showed on the real session; repaired, now translated.) -/
def expectedUnrecognised : List String := [
  "ServerInformation", "CurrentAttribute", "NewAttribute", "Attributes", "KeyMaterialStruct", "ResponseBatchItem",
  "RequestMessage", "ResponseMessage", "SignRequestPayload", "SignResponsePayload"]

/-- **No class dropped out of the tables**: the set of unclassified classes is the documented one. -/
theorem gen_unrecognised_expected : genUnrecognised = expectedUnrecognised := by decide

/-- the classes translated with a marked approximation on the unchanged tree (a new approximation must be looked at) -/
def expectedApprox : List String := [
  "Attribute", "AttestationCredential", "Credential", "KeyValue", "DefaultsInformation", "SplitKey", "Template",
  "Authentication", "DeleteAttributeRequestPayload", "DeriveKeyRequestPayload", "GetResponsePayload",
  "GetAttributeListResponsePayload", "QueryRequestPayload", "RegisterRequestPayload"]

theorem gen_approx_expected : genApprox = expectedApprox := by decide

/-! ### non-vacuity -/

/-- the tables are not empty and the agreement is not about nothing -/
example : 70 ≤ genRead.length ∧ genRead.length = genWrite.length := by decide
example : 60 ≤ genExact.length := by decide +kernel
example : 25 ≤ genGates.length := by decide +kernel

/-- a class with a version-gated field: the KMIP 2.0 Ephemeral flag of a request batch item is not written under 1.4,
rejected when received under 1.4, accepted under 2.0 -/
example : genRead.any (fun s => s.name == RequestBatchItem.r.name) = true := by decide +kernel
example : RequestBatchItem.r.fields.any (fun f => f.tag == 0x420154 && f.vmin == 20) = true := by decide
example : encodeFields RequestBatchItem.r.fields 14
    [[.prim 0x42005C (.enumeration 18)], [.prim 0x420154 (.boolean true)], [], [.struct 0x420079 []], []] =
    [.prim 0x42005C (.enumeration 18), .struct 0x420079 []] := by rfl
example : decodeFields RequestBatchItem.r.fields 14
    [.prim 0x42005C (.enumeration 18), .prim 0x420154 (.boolean true), .struct 0x420079 []] = none := by rfl
example : (decodeFields RequestBatchItem.r.fields 20
    [.prim 0x42005C (.enumeration 18), .prim 0x420154 (.boolean true), .struct 0x420079 []]).isSome = true := by
  decide +kernel

/-- a class with a field that is replaced under 2.0: Create request, Template Attribute below 2.0, Attributes from 2.0 -/
example : conforms CreateRequestPayload.r.fields 14
    [[.prim 0x420057 (.enumeration 2)], [.struct 0x420091 []], [], []] = true := by decide +kernel
example : decodeS CreateRequestPayload.r 20 (encodeS CreateRequestPayload.r 20
    [[.prim 0x420057 (.enumeration 2)], [], [.struct 0x420125 []], [.struct 0x42015F []]]) =
    some [[.prim 0x420057 (.enumeration 2)], [], [.struct 0x420125 []], [.struct 0x42015F []]] := by rfl
example : decodeFields CreateRequestPayload.r.fields 20
    [.prim 0x420057 (.enumeration 2), .struct 0x420091 []] = none := by rfl

/-- a class with a repeated field: Locate response, any number of Unique Identifiers after the optional count -/
example : genRead.any (fun s => s.name == LocateResponsePayload.r.name) = true := by decide +kernel
example : decodeS LocateResponsePayload.r 12 (.struct 0x42007C
    [.prim 0x4200D5 (.integer 2), .prim 0x420094 (.textString [0x31]), .prim 0x420094 (.textString [0x32])]) =
    some [[.prim 0x4200D5 (.integer 2)], [.prim 0x420094 (.textString [0x31]), .prim 0x420094 (.textString [0x32])]] := by
  rfl
example : conforms LocateResponsePayload.r.fields 12
    [[], [.prim 0x420094 (.textString [0x31]), .prim 0x420094 (.textString [0x32]), .prim 0x420094 (.textString [])]]
    = true := by decide +kernel

/-- the hypotheses of `gen_later_field_rejected` are satisfiable: nothing defined under 1.0 accepts the Ephemeral flag -/
example : ∀ f ∈ RequestBatchItem.r.fields, f.active 10 = true → f.accepts (.prim 0x420154 (.boolean true)) = false := by
  decide +kernel

/-- the exception lists are about real differences: the two tables do differ there -/
example : GetAttributesRequestPayload.r.fields.any (fun f => f.tag == 0x42013B && f.kind == .enumOrStruct) = true ∧
    GetAttributesRequestPayload.w.fields.any (fun f => f.tag == 0x42013B && f.kind == .prim 5) = true := by decide
example : genReadMin1.contains ("Template", 0x420008) = true ∧ genWriteMin1.contains ("Template", 0x420008) = true := by
  decide

end Kmip.C01Gen
