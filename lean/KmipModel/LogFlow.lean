/-
M12 — log flow.  Every logger call of the package is a *site* (file, line, level,
provenance class of each formatted argument), extracted by the translator.  An
execution fires sites with concrete argument renderings.
-/
import KmipModel.TableTypes
namespace Kmip.LogFlow
open Kmip

def infoLevel : Nat := 20

/-- classes that may carry key material, secret data, credentials or message encodings -/
def secretClass (c : Nat) : Bool := c ≥ 10

def safeAtInfo (s : LogSite) : Bool := s.level < infoLevel || s.argCodes.all (fun c => !secretClass c)

/-- one record the program tries to emit: the site and the rendered arguments -/
structure Firing where
  site : LogSite
  vals : List String
  deriving DecidableEq, Repr

/-- what reaches the log at the default level -/
def emitted (f : Firing) : Option (String × Nat × List String) :=
  if f.site.level ≥ infoLevel then some (f.site.file, f.site.line, f.vals) else none

/-- two firings of the same site whose renderings agree on every argument of a non-secret class -/
def SecretEquiv (f g : Firing) : Prop :=
  f.site = g.site ∧ f.vals.length = g.vals.length ∧ f.vals.length = f.site.argCodes.length ∧
  ∀ i, i < f.vals.length → secretClass (f.site.argCodes.getD i 0) = false → f.vals[i]? = g.vals[i]?

/-- executions that fire the same sites in the same order, pairwise `SecretEquiv` -/
inductive AllEquiv : List Firing → List Firing → Prop
  | nil : AllEquiv [] []
  | cons {f g fs gs} : SecretEquiv f g → AllEquiv fs gs → AllEquiv (f :: fs) (g :: gs)

end Kmip.LogFlow
