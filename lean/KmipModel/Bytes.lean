/-
Bytes — big-endian numbers, two's complement, zero padding, exact splitting.

Shared by M1 (`KmipModel/TTLV.lean`, the specification-side TTLV codec) and M2
(`KmipModel/Prim.lean`, the Python-faithful primitive codecs).  Core Lean only.
-/
namespace Kmip.TTLV

abbrev Bytes := List UInt8

/-! ### unsigned big-endian -/

/-- the `k` low-order bytes of `n`, most significant first (`struct.pack('!I', n)` for `k = 4`) -/
def be : Nat → Nat → Bytes
  | 0, _ => []
  | k + 1, n => UInt8.ofNat (n / 256 ^ k) :: be k (n % 256 ^ k)

/-- big-endian value of a byte string -/
def ofBE : Bytes → Nat
  | [] => 0
  | b :: bs => b.toNat * 256 ^ bs.length + ofBE bs

@[simp] theorem be_length (k n : Nat) : (be k n).length = k := by
  induction k generalizing n with
  | zero => rfl
  | succ k ih => simp [be, ih]

theorem pow256_pos (k : Nat) : 0 < 256 ^ k := Nat.pow_pos (by decide)

theorem ofBE_lt (l : Bytes) : ofBE l < 256 ^ l.length := by
  induction l with
  | nil => simp [ofBE]
  | cons b bs ih =>
    simp only [ofBE, List.length_cons, Nat.pow_succ]
    have hb : b.toNat < 256 := UInt8.toNat_lt b
    have : b.toNat * 256 ^ bs.length + 256 ^ bs.length ≤ 256 ^ bs.length * 256 := by
      have : (b.toNat + 1) * 256 ^ bs.length ≤ 256 * 256 ^ bs.length := Nat.mul_le_mul_right _ hb
      rw [Nat.add_mul, Nat.one_mul] at this
      rw [Nat.mul_comm (256 ^ bs.length) 256]
      exact this
    omega

theorem ofBE_be (k n : Nat) (h : n < 256 ^ k) : ofBE (be k n) = n := by
  induction k generalizing n with
  | zero => simp [Nat.pow_zero] at h; subst h; rfl
  | succ k ih =>
    simp only [be, ofBE, be_length]
    have hp := pow256_pos k
    have hq : n / 256 ^ k < 256 := by
      rw [Nat.div_lt_iff_lt_mul hp]
      rw [Nat.pow_succ, Nat.mul_comm] at h
      exact h
    rw [ih _ (Nat.mod_lt _ hp)]
    have : (UInt8.ofNat (n / 256 ^ k)).toNat = n / 256 ^ k := by
      rw [UInt8.toNat_ofNat']
      exact Nat.mod_eq_of_lt hq
    rw [this, Nat.mul_comm]
    exact Nat.div_add_mod n (256 ^ k)

theorem be_ofBE (l : Bytes) : be l.length (ofBE l) = l := by
  induction l with
  | nil => rfl
  | cons b bs ih =>
    simp only [List.length_cons, be, ofBE]
    have hp := pow256_pos bs.length
    have hlt := ofBE_lt bs
    have h1 : (b.toNat * 256 ^ bs.length + ofBE bs) / 256 ^ bs.length = b.toNat := by
      rw [Nat.mul_comm, Nat.mul_add_div hp, Nat.div_eq_of_lt hlt, Nat.add_zero]
    have h2 : (b.toNat * 256 ^ bs.length + ofBE bs) % 256 ^ bs.length = ofBE bs := by
      rw [Nat.mul_comm, Nat.mul_add_mod, Nat.mod_eq_of_lt hlt]
    rw [h1, h2, ih]
    simp

/-- `be k` of the value of a `k`-byte string gives the string back -/
theorem be_ofBE' (l : Bytes) (k : Nat) (h : l.length = k) : be k (ofBE l) = l := by
  subst h; exact be_ofBE l

/-! ### two's complement on `n` bytes -/

/-- the unsigned number whose `n`-byte representation is the two's complement of `v` -/
def toTC (n : Nat) (v : Int) : Nat := (v % ((256 ^ n : Nat) : Int)).toNat

/-- the signed reading of an unsigned `n`-byte number -/
def ofTC (n : Nat) (x : Nat) : Int := if 2 * x < 256 ^ n then (x : Int) else (x : Int) - ((256 ^ n : Nat) : Int)

/-- `v` is representable as an `n`-byte two's complement number -/
def fitsTC (n : Nat) (v : Int) : Prop := -((256 ^ n : Nat) : Int) ≤ 2 * v ∧ 2 * v < ((256 ^ n : Nat) : Int)

instance (n : Nat) (v : Int) : Decidable (fitsTC n v) := by unfold fitsTC; exact inferInstance

theorem toTC_lt (n : Nat) (v : Int) : toTC n v < 256 ^ n := by
  unfold toTC
  have hp : (0 : Int) < ((256 ^ n : Nat) : Int) := by exact_mod_cast pow256_pos n
  have h1 := Int.emod_nonneg v (Int.ne_of_gt hp)
  have h2 := Int.emod_lt_of_pos v hp
  omega

theorem ofTC_toTC (n : Nat) (v : Int) (h : fitsTC n v) : ofTC n (toTC n v) = v := by
  unfold fitsTC at h
  unfold ofTC toTC
  generalize hP : ((256 ^ n : Nat) : Int) = P at *
  have hp : (0 : Int) < P := by rw [← hP]; exact_mod_cast pow256_pos n
  by_cases hv : 0 ≤ v
  · have hm : v % P = v := Int.emod_eq_of_lt hv (by omega)
    rw [hm]
    have : ((v.toNat : Nat) : Int) = v := Int.toNat_of_nonneg hv
    have hlt : 2 * v.toNat < 256 ^ n := by
      have : ((2 * v.toNat : Nat) : Int) < ((256 ^ n : Nat) : Int) := by rw [hP]; push_cast; omega
      exact_mod_cast this
    rw [if_pos hlt]; exact this
  · have hm : v % P = v + P := by
      have : (v + P) % P = v + P := Int.emod_eq_of_lt (by omega) (by omega)
      rw [← this, Int.add_emod_right]
    rw [hm]
    have hnn : 0 ≤ v + P := by omega
    have hc : (((v + P).toNat : Nat) : Int) = v + P := Int.toNat_of_nonneg hnn
    have hge : ¬ 2 * (v + P).toNat < 256 ^ n := by
      intro hlt
      have : ((2 * (v + P).toNat : Nat) : Int) < ((256 ^ n : Nat) : Int) := by exact_mod_cast hlt
      rw [hP] at this; push_cast at this; omega
    rw [if_neg hge, hc]; omega

theorem fitsTC_ofTC (n : Nat) (x : Nat) (h : x < 256 ^ n) : fitsTC n (ofTC n x) := by
  unfold fitsTC ofTC
  have hx : ((x : Nat) : Int) < ((256 ^ n : Nat) : Int) := by exact_mod_cast h
  generalize hP : ((256 ^ n : Nat) : Int) = P at *
  split
  · rename_i hlt
    have : ((2 * x : Nat) : Int) < ((256 ^ n : Nat) : Int) := by exact_mod_cast hlt
    rw [hP] at this; push_cast at this; omega
  · rename_i hge
    have : ¬ ((2 * x : Nat) : Int) < ((256 ^ n : Nat) : Int) := by
      intro h'; exact hge (by exact_mod_cast h')
    rw [hP] at this; push_cast at this; omega

theorem toTC_ofTC (n : Nat) (x : Nat) (h : x < 256 ^ n) : toTC n (ofTC n x) = x := by
  unfold toTC ofTC
  have hx : ((x : Nat) : Int) < ((256 ^ n : Nat) : Int) := by exact_mod_cast h
  generalize hP : ((256 ^ n : Nat) : Int) = P at *
  split
  · have : (x : Int) % P = x := Int.emod_eq_of_lt (by omega) hx
    rw [this]; simp
  · have : ((x : Int) - P) % P = x := by
      rw [Int.sub_emod_right]; exact Int.emod_eq_of_lt (by omega) hx
    rw [this]; simp

/-! ### padding and exact splitting -/

/-- number of zero bytes that bring `len` value bytes to a multiple of 8 -/
def padLen (len : Nat) : Nat := (8 - len % 8) % 8

def zeros (n : Nat) : Bytes := List.replicate n 0

@[simp] theorem zeros_length (n : Nat) : (zeros n).length = n := by simp [zeros]

def allZero (l : Bytes) : Bool := l.all (· == 0)

theorem allZero_zeros (n : Nat) : allZero (zeros n) = true := by
  simp [allZero, zeros]

theorem eq_zeros_of_allZero (l : Bytes) (h : allZero l = true) : l = zeros l.length := by
  induction l with
  | nil => rfl
  | cons b bs ih =>
    simp only [allZero, List.all_cons, Bool.and_eq_true, beq_iff_eq] at h
    have := ih h.2
    simp only [zeros, List.length_cons, List.replicate_succ] at this ⊢
    rw [h.1, ← this]

theorem padLen_add (len : Nat) : (len + padLen len) % 8 = 0 := by
  unfold padLen; omega

/-- split off exactly `n` bytes, or fail when fewer are available -/
def takeExact (n : Nat) (bs : Bytes) : Option (Bytes × Bytes) :=
  if n ≤ bs.length then some (bs.take n, bs.drop n) else none

theorem takeExact_append (a rest : Bytes) : takeExact a.length (a ++ rest) = some (a, rest) := by
  simp [takeExact]

theorem takeExact_append' (a rest : Bytes) (n : Nat) (h : a.length = n) :
    takeExact n (a ++ rest) = some (a, rest) := by
  subst h; exact takeExact_append a rest

theorem takeExact_some (n : Nat) (bs a rest : Bytes) (h : takeExact n bs = some (a, rest)) :
    bs = a ++ rest ∧ a.length = n := by
  unfold takeExact at h
  split at h
  · rename_i hle
    simp only [Option.some.injEq, Prod.mk.injEq] at h
    obtain ⟨rfl, rfl⟩ := h
    exact ⟨(List.take_append_drop n bs).symm, by simp [List.length_take]; omega⟩
  · cases h

/-! ### bit length (`int.bit_length()` of a non-negative number) -/

def bitlen (n : Nat) : Nat := if h : n = 0 then 0 else bitlen (n / 2) + 1
decreasing_by omega

theorem lt_two_pow_bitlen (n : Nat) : n < 2 ^ bitlen n := by
  induction n using Nat.strongRecOn with
  | ind n ih =>
    unfold bitlen
    split
    · rename_i h; subst h; simp
    · rename_i h
      have := ih (n / 2) (by omega)
      rw [Nat.pow_succ]; omega

theorem two_pow_le_of_bitlen (n : Nat) (h : n ≠ 0) : 2 ^ (bitlen n - 1) ≤ n := by
  induction n using Nat.strongRecOn with
  | ind n ih =>
    unfold bitlen
    rw [dif_neg h]
    simp only [Nat.add_sub_cancel]
    by_cases h2 : n / 2 = 0
    · rw [h2]; unfold bitlen; simp; omega
    · have := ih (n / 2) (by omega) h2
      have hb : bitlen (n / 2) = (bitlen (n / 2) - 1) + 1 := by
        have : bitlen (n / 2) ≠ 0 := by unfold bitlen; rw [dif_neg h2]; omega
        omega
      rw [hb, Nat.pow_succ]; omega

theorem bitlen_le_of_lt_pow (n e : Nat) (h : n < 2 ^ e) : bitlen n ≤ e := by
  by_cases hn : n = 0
  · subst hn; unfold bitlen; simp
  · have h1 := two_pow_le_of_bitlen n hn
    have : 2 ^ (bitlen n - 1) < 2 ^ e := Nat.lt_of_le_of_lt h1 h
    have := (Nat.pow_lt_pow_iff_right (by decide : 1 < 2)).mp this
    omega

theorem pow256_eq (n : Nat) : 256 ^ n = 2 ^ (8 * n) := by
  rw [Nat.pow_mul]

end Kmip.TTLV
