def hello := "world"
