/-
Declarative side of C18: what the policy store must be, given only what the policy
files contained and when they were loaded ("latest loader wins"), and which JSON
documents are policy documents.  Nothing here looks at the monitor's cache stacks,
owner map, or at the parser's control flow.
-/
import KmipModel.Monitor
import KmipModel.Gen.Tables
namespace Kmip.Mon

/-! ### histories -/

/-- What the environment contract says about one directory listing: no file name
twice, and a successful read returns a dict (no name twice). -/
def Parse.WF : Parse → Prop
  | .ok defs => (dkeys defs).Nodup
  | _ => True

def DirSnapshot.WF (d : DirSnapshot) : Prop :=
  (dkeys d).Nodup ∧ ∀ e ∈ d, e.2.2.WF

/-- no file of the snapshot makes `read_policy_from_file` raise anything but ValueError -/
def DirSnapshot.NoCrash (d : DirSnapshot) : Prop :=
  ∀ e ∈ d, ∀ cls, e.2.2 ≠ .crash cls

instance (p : Parse) : Decidable p.WF := by
  cases p <;> simp only [Parse.WF] <;> infer_instance

instance (d : DirSnapshot) : Decidable d.WF := by
  simp only [DirSnapshot.WF]; infer_instance

def Parse.isCrash : Parse → Bool
  | .crash _ => true
  | _ => false

theorem DirSnapshot.noCrash_iff (d : DirSnapshot) : d.NoCrash ↔ d.all (fun e => !e.2.2.isCrash) = true := by
  simp only [DirSnapshot.NoCrash, List.all_eq_true, Bool.not_eq_true']
  constructor
  · intro h e he
    cases hp : e.2.2 with
    | crash c => exact absurd hp (h e he c)
    | ok d => rfl
    | rejected => rfl
  · intro h e he cls hc
    have := h e he
    rw [hc] at this; cases this

instance (d : DirSnapshot) : Decidable d.NoCrash := decidable_of_iff _ (DirSnapshot.noCrash_iff d).symm

/-! ### the specification state: what was loaded from where, most recent first -/

structure SpecState where
  /-- file ↦ mtime at which the file was last looked at -/
  seen : List (File × Nat)
  /-- the files of the previous listing -/
  files : List File
  /-- files that were loaded successfully at least once and still exist, with the content of their last
      successful load; the MOST RECENTLY loaded file first -/
  loaded : List (File × List (Name × PolId))
  deriving Repr

def SpecState.init : SpecState := { seen := [], files := [], loaded := [] }

/-- the definitions of name `p`, one per file that still defines it, most recently loaded first -/
def definers (p : Name) (loaded : List (File × List (Name × PolId))) : List (File × PolId) :=
  loaded.filterMap (fun e => (dget e.2 p).map (fun d => (e.1, d)))

/-- **The policy in force according to the files**: each non-reserved name maps to the definition in the
most recently loaded file that still defines it; a name no file defines has none. -/
def specStore (R : List Name) (sp : SpecState) (p : Name) : Option PolId :=
  if R.contains p then none else ((definers p sp.loaded).head?).map Prod.snd

def specRemove (sp : SpecState) (f : File) : SpecState :=
  { sp with seen := dpop sp.seen f, loaded := sp.loaded.filter (fun e => decide (e.1 ≠ f)) }

def specVisit (_R : List Name) (snap : DirSnapshot) (sp : SpecState) (f : File) : SpecState :=
  match dget snap f, dget sp.seen f with
  | some (t, parse), some ts =>
    if t > ts then
      let sp1 := { sp with seen := dset sp.seen f t }
      match parse with
      | .ok defs => { sp1 with loaded := (f, defs) :: sp.loaded.filter (fun e => decide (e.1 ≠ f)) }
      | _ => sp1                      -- not a valid policy document: rejected as a whole
    else sp
  | _, _ => sp

/-- one look at the directory: files that are gone are forgotten, files that are new or whose mtime moved
are (re)loaded in the order of their names -/
def specScan (R : List Name) (sp : SpecState) (snap : DirSnapshot) : SpecState :=
  let files := sortFiles (dkeys snap)
  let added := files.filter (fun f => !sp.files.contains f)
  let sp1 := { sp with seen := added.foldl (fun ts f => dset ts f 0) sp.seen }
  let removed := sp.files.filter (fun f => !files.contains f)
  let sp2 := removed.foldl specRemove sp1
  let sp3 := { sp2 with files := files }
  (sortFiles (dkeys sp3.seen)).foldl (specVisit R snap) sp3

def specRun (R : List Name) (h : List DirSnapshot) : SpecState := h.foldl (specScan R) SpecState.init

/-! ### policy documents -/

/-- the name tables of the running code (regenerated from /repo on every run) -/
def liveTables : NameTables :=
  { objectTypes := Gen.enumObjectType.map Prod.fst, operations := Gen.enumOperation.map Prod.fst,
    permissions := permissionNames }

/-- `{operation: permission}` with known names -/
def OpsOK (T : NameTables) (j : J) : Prop :=
  ∃ kvs, j = .obj kvs ∧ ∀ e ∈ kvs, T.operations.contains e.1 = true ∧
    ∃ s, e.2 = .str s ∧ T.permissions.contains s = true

/-- `{object type: {operation: permission}}` with known names -/
def TableOK (T : NameTables) (j : J) : Prop :=
  ∃ kvs, j = .obj kvs ∧ ∀ e ∈ kvs, T.objectTypes.contains e.1 = true ∧ OpsOK T e.2

/-- a section value the parser takes as "no such section" (Python falsy) -/
def Falsy (j : J) : Prop := j.truthy = false

/-- one policy body in one of the documented shapes -/
def BodyOK (T : NameTables) (j : J) : Prop :=
  ∃ kvs, j = .obj kvs ∧
    (kvs = [] ∨
     -- sections
     ((∀ k ∈ dkeys kvs, k = "groups" ∨ k = "preset") ∧
      (∀ v, dget kvs "preset" = some v → Falsy v ∨ TableOK T v) ∧
      (∀ v, dget kvs "groups" = some v → Falsy v ∨ ∃ gs, v = .obj gs ∧ ∀ g ∈ gs, TableOK T g.2)) ∨
     -- object types at the top level
     (¬ (∀ k ∈ dkeys kvs, k = "groups" ∨ k = "preset") ∧
      (∀ k ∈ dkeys kvs, T.objectTypes.contains k = true) ∧ TableOK T (.obj kvs)))

/-- **a policy document**: a JSON object of policy bodies -/
def DocOK (T : NameTables) (j : J) : Prop :=
  ∃ kvs, j = .obj kvs ∧ ∀ e ∈ kvs, BodyOK T e.2

end Kmip.Mon
