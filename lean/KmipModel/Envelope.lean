/-
The response-message envelope of the KMIP specification (§6 "Message Contents", §7 "Message Format"),
as an executable predicate on M1 item trees.  Tags are the specification's constants (pinned against the
code's `enums.Tags` by `Kmip.C02.tags_match_spec`).

  Response Message  := Response Header, Batch Item*
  Response Header   := Protocol Version (major, minor), Time Stamp, …, Batch Count
  Batch Item        := [Operation], [Unique Batch Item ID], Result Status, [Result Reason], [Result Message], …
  Result Reason  REQUIRED if Result Status is not Success, Result Message accompanies it (the property
  demands both exactly when the status is not Success); Batch Count = number of Batch Items.
-/
import KmipModel.TTLV
namespace Kmip.Envelope
open Kmip.TTLV

def tResponseMessage : Nat := 0x42007B
def tResponseHeader : Nat := 0x42007A
def tProtocolVersion : Nat := 0x420069
def tProtocolVersionMajor : Nat := 0x42006A
def tProtocolVersionMinor : Nat := 0x42006B
def tTimeStamp : Nat := 0x420092
def tBatchCount : Nat := 0x42000D
def tBatchItem : Nat := 0x42000F
def tResultStatus : Nat := 0x42007F
def tResultReason : Nat := 0x42007E
def tResultMessage : Nat := 0x42007D
def tRequestMessage : Nat := 0x420078
def tRequestHeader : Nat := 0x420077
def tOperation : Nat := 0x42005C
def tUniqueBatchItemID : Nat := 0x420093
def tResponsePayload : Nat := 0x42007C
def tRequestPayload : Nat := 0x420079

def Item.tag : Item → Nat
  | .prim t _ => t
  | .struct t _ => t

def find (t : Nat) : List Item → Option Item
  | [] => none
  | i :: is => if Item.tag i = t then some i else find t is

def count (t : Nat) (ks : List Item) : Nat := (ks.filter (fun i => Item.tag i = t)).length

def intOf : Option Item → Option Int
  | some (.prim _ (.integer v)) => some v
  | _ => none

def enumOf : Option Item → Option Nat
  | some (.prim _ (.enumeration v)) => some v
  | _ => none

def kidsOf : Option Item → Option (List Item)
  | some (.struct _ ks) => some ks
  | _ => none

/-- clauses of the envelope a batch item violates -/
def itemFaults (i : Item) : List String :=
  match i with
  | .struct t ks =>
    if t ≠ tBatchItem then ["item-tag"] else
    match enumOf (find tResultStatus ks) with
    | none => ["status-missing"]
    | some st =>
      let hasReason := (find tResultReason ks).isSome
      let hasMessage := (find tResultMessage ks).isSome
      (if count tResultStatus ks ≠ 1 then ["status-repeated"] else []) ++
      (if st = 0 then
        (if hasReason then ["reason-on-success"] else []) ++ (if hasMessage then ["message-on-success"] else [])
       else
        (if hasReason then [] else ["reason-missing"]) ++ (if hasMessage then [] else ["message-missing"]))
  | _ => ["item-not-structure"]

/-- clauses of the envelope a response message violates; `reqVer` = protocol version of the request when the
request was decoded -/
def faults (reqVer : Option (Int × Int)) (i : Item) : List String :=
  match i with
  | .struct t (hdr :: items) =>
    if t ≠ tResponseMessage then ["message-tag"] else
    match hdr with
    | .struct th hk =>
      if th ≠ tResponseHeader then ["header-tag"] else
      let pv := kidsOf (find tProtocolVersion hk)
      let major := pv.bind (fun ks => intOf (find tProtocolVersionMajor ks))
      let minor := pv.bind (fun ks => intOf (find tProtocolVersionMinor ks))
      (match major, minor with
        | some a, some b =>
          (match reqVer with
           | some (ra, rb) => if a = ra ∧ b = rb then [] else ["version-not-echoed"]
           | none => [])
        | _, _ => ["version-missing"]) ++
      (match find tTimeStamp hk with
        | some (.prim _ (.dateTime _)) => []
        | _ => ["timestamp-missing"]) ++
      (match intOf (find tBatchCount hk) with
        | some n => if n = (items.length : Int) then [] else ["batch-count-mismatch"]
        | none => ["batch-count-missing"]) ++
      (items.map itemFaults).flatten
    | _ => ["header-not-structure"]
  | _ => ["message-shape"]

end Kmip.Envelope

namespace Kmip.Envelope
open Kmip.TTLV

/-! ### how the engine composes a response (engine.py `_process_batch` l.395-432, `_build_response` l.318-328,
`build_error_response` l.330-353), as item trees -/

/-- what `_process_batch` knows about one executed item when it composes the ResponseBatchItem -/
inductive Outcome where
  /-- the handler returned: status SUCCESS, no reason, no message, the handler's payload -/
  | success (payload : Item)
  /-- a KmipError (its status, reason, `str(e)`) or any other exception (OPERATION_FAILED, GENERAL_FAILURE,
  fixed text); no payload -/
  | failure (status reason : Nat) (message : Bytes)

structure ItemResult where
  operation : Option Nat          -- the request item's Operation (always present in a parsed request)
  batchId : Option Bytes
  outcome : Outcome

def optItem {α} (o : Option α) (f : α → Item) : List Item :=
  match o with
  | some a => [f a]
  | none => []

/-- ResponseBatchItem.write order: operation, unique batch item ID, result status, result reason, result
message, (asynchronous correlation value,) response payload -/
def buildItem (r : ItemResult) : Item :=
  .struct tBatchItem (
    optItem r.operation (fun op => .prim tOperation (.enumeration op)) ++
    optItem r.batchId (fun b => .prim tUniqueBatchItemID (.byteString b)) ++
    (match r.outcome with
     | .success payload => [.prim tResultStatus (.enumeration 0), payload]
     | .failure st rs msg =>
       [.prim tResultStatus (.enumeration st), .prim tResultReason (.enumeration rs),
        .prim tResultMessage (.textString msg)]))

def buildResponse (ver : Int × Int) (now : Int) (items : List ItemResult) : Item :=
  .struct tResponseMessage (
    .struct tResponseHeader [
      .struct tProtocolVersion [.prim tProtocolVersionMajor (.integer ver.1),
                                .prim tProtocolVersionMinor (.integer ver.2)],
      .prim tTimeStamp (.dateTime now),
      .prim tBatchCount (.integer items.length)] ::
    items.map buildItem)

/-- `build_error_response`: one item without operation and ID -/
def buildErrorResponse (ver : Int × Int) (now : Int) (reason : Nat) (message : Bytes) : Item :=
  buildResponse ver now [⟨none, none, .failure 1 reason message⟩]

end Kmip.Envelope
