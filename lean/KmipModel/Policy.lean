/-
M4 — operation-policy decision.

Transcribed from kmip/services/server/engine.py:
  _is_allowed_by_operation_policy (l.1053-1079)
  get_relevant_policy_section     (l.1081-1116)
  is_allowed                      (l.1118-1170)

Python dictionaries are association lists with unique keys (the harness never
generates duplicate keys; `List.lookup` returns the first match).  Python
truthiness is modelled where the code relies on it:
  * `if not policy_bundle`      : a bundle with neither section is the empty dict
  * `if group:`                 : `None` and the empty string both select `preset`
  * `if not groups_policy_bundle`, `if not group_policy`, `if not object_policy`
                                : absent or empty dict
  * `if not operation_object_policy` : absent (enum members are truthy)
No imports: this file is used by the executable driver.
-/
namespace Kmip

/-- A permission value stored in a policy table.  `other` stands for any truthy
value that is not one of the three `enums.Policy` members (the final `else`). -/
inductive Perm where
  | allowAll | allowOwner | disallowAll | other
  deriving DecidableEq, Repr, Inhabited

/-- operation (enum value) ↦ permission -/
abbrev OpTable := List (Nat × Perm)
/-- object type (enum value) ↦ operation table -/
abbrev ObjTable := List (Nat × OpTable)

instance instDecEqObjTable : DecidableEq ObjTable :=
  inferInstanceAs (DecidableEq (List (Nat × List (Nat × Perm))))
instance instDecEqGroupTable : DecidableEq (List (String × ObjTable)) :=
  fun a b => instDecidableEqList a b

/-- One named operation policy: optional `preset` section and optional `groups`
section (group name ↦ table). -/
structure Bundle where
  preset : Option ObjTable
  groups : Option (List (String × ObjTable))
  deriving Repr, Inhabited

instance : DecidableEq Bundle := fun a b =>
  match a, b with
  | ⟨p1, g1⟩, ⟨p2, g2⟩ =>
    if h : p1 = p2 ∧ g1 = g2 then isTrue (by cases h; simp_all) else isFalse (by intro e; cases e; simp_all)

abbrev Policies := List (String × Bundle)

/-- The authenticated identity handed to the engine: `(user, groups)`. -/
structure Identity where
  user   : Option String
  groups : Option (List String)
  deriving Repr, Inhabited, DecidableEq

/-- Python `not bundle` for the two-key dict. -/
def Bundle.isEmpty (b : Bundle) : Bool := b.preset.isNone && b.groups.isNone

/-- `get_relevant_policy_section(policy_name, group)`; `none` = Python `None`. -/
def relevantSection (ps : Policies) (name : String) (group : Option String) : Option ObjTable :=
  match ps.lookup name with
  | none => none
  | some b =>
    if b.isEmpty then none else
    match group with
    | some g =>
      if g = "" then b.preset else
      match b.groups with
      | none => none
      | some gs =>
        if gs.isEmpty then none else
        match gs.lookup g with
        | none => none
        | some t => if t.isEmpty then none else some t
    | none => b.preset

/-- `is_allowed(policy_name, session_user, session_group, object_owner, object_type, operation)`. -/
def isAllowed (ps : Policies) (name : String) (user : Option String) (group : Option String)
    (owner : Option String) (otype op : Nat) : Bool :=
  match relevantSection ps name group with
  | none => false
  | some sec =>
    match sec.lookup otype with
    | none => false
    | some ot =>
      if ot.isEmpty then false else
      match ot.lookup op with
      | none => false
      | some .allowAll => true
      | some .allowOwner => decide (user = owner)
      | some .disallowAll => false
      | some .other => false

/-- `_is_allowed_by_operation_policy`: no group information ⇒ one pass with
`None`; otherwise any group for which `is_allowed` holds. -/
def allowedByPolicy (ps : Policies) (name : String) (id : Identity)
    (owner : Option String) (otype op : Nat) : Bool :=
  match id.groups with
  | none => isAllowed ps name id.user none owner otype op
  | some gs => gs.any (fun g => isAllowed ps name id.user (some g) owner otype op)

end Kmip
