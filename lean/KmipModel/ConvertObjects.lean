/-
M13b — the object conversions of the storage path, transcribed from the code as it is.

  core secret ──coreToPie──▶ pie object ──pieToRow──▶ SQL columns ──rowToPie──▶ pie object ──engineBuildCore──▶ core secret
                    ▲                                                                │
                    └──────────────── pieToCore (client, factory direction) ◀────────┘

* `coreToPie`, `pieToCore`: `kmip/pie/factory.py` `ObjectFactory.convert` (l.36-76) and its `_build_pie_*` /
  `_build_core_*` helpers (l.78-282), with what the pie constructors of `kmip/pie/objects.py` refuse (`validate()`).
* `engineBuildCore`: `kmip/services/server/engine.py` `_build_core_object` (l.477-551) through
  `kmip/core/factories/secrets.py` `SecretFactory.create` / `_build_key_block` (l.49-206).  This is the engine's own
  pie → core conversion for Get; it is NOT `ObjectFactory.convert` (see `engineKeyBlock` for where the two differ).
* `pieToRow`, `rowToPie`: the SQLAlchemy column mapping of `kmip/pie/objects.py` and the type decorators of
  `kmip/pie/sqltypes.py` (`UsageMaskType` l.36-76, `EnumType` l.79-128, `ManagedObjectName` l.131-146).

Conventions.  Bytes are lowercase hex strings.  An enumeration member is its integer value (`Nat`); a usage mask
member is its bit value.  Python `None` is `none` / `FV.none`.  A pie `Key` holds its key wrapping data as the 32
flattened columns (`Convert.Columns`); the `key_wrapping_data` property is `Convert.fromColumns` of them and the
setter is `Convert.toColumns` (M13).  A core `KeyWrappingData` is written as the dictionary it is built from
(`Convert.WrapDict`: key information `none` = the attribute is `None`, parameters `none` = `None`).

Not in this model: the unique identifier (assigned by the database: `Store.nextUid` of the engine model), the
application specific information and object group relations (attribute operations, engine model), `Template`.
-/
import KmipModel.Convert
namespace Kmip.ConvObj
open Kmip.Convert

/-- number of bytes of a hex string -/
def blen (hex : String) : Nat := hex.length / 2

/-! ## errors -/
inductive ErrClass where
  | attributeError | typeError | valueError | overflowError
  /-- the input is outside what this model describes (never produced on inputs the theorems talk about) -/
  | outsideModel
  deriving DecidableEq, Repr, Inhabited

/-- the exception class and a fragment of its message -/
structure ConvErr where
  cls : ErrClass
  msg : String
  deriving DecidableEq, Repr, Inhabited

abbrev C := Except ConvErr
def attrErr {α} (m : String) : C α := .error ⟨.attributeError, m⟩
def typeErr {α} (m : String) : C α := .error ⟨.typeError, m⟩
def valErr {α} (m : String) : C α := .error ⟨.valueError, m⟩
def overflowErr {α} (m : String) : C α := .error ⟨.overflowError, m⟩
def outside {α} (m : String) : C α := .error ⟨.outsideModel, m⟩

/-! ## the seven classes -/
inductive KeyKind where
  | symmetric | publicKey | privateKey
  deriving DecidableEq, Repr, Inhabited

inductive Kind where
  | certificate | symmetricKey | publicKey | privateKey | splitKey | secretData | opaqueObject
  deriving DecidableEq, Repr, Inhabited

def KeyKind.kind : KeyKind → Kind
  | .symmetric => .symmetricKey
  | .publicKey => .publicKey
  | .privateKey => .privateKey

/-- `enums.ObjectType` -/
def Kind.objectType : Kind → Nat
  | .certificate => 1 | .symmetricKey => 2 | .publicKey => 3 | .privateKey => 4
  | .splitKey => 5 | .secretData => 7 | .opaqueObject => 8

/-- the `polymorphic_identity` stored in `managed_objects.class_type` -/
def Kind.classType : Kind → String
  | .certificate => "X509Certificate" | .symmetricKey => "SymmetricKey" | .publicKey => "PublicKey"
  | .privateKey => "PrivateKey" | .splitKey => "SplitKey" | .secretData => "SecretData"
  | .opaqueObject => "OpaqueData"

/-- the `name=` default of each constructor -/
def Kind.defaultName : Kind → String
  | .certificate => "X.509 Certificate" | .symmetricKey => "Symmetric Key" | .publicKey => "Public Key"
  | .privateKey => "Private Key" | .splitKey => "Split Key" | .secretData => "Secret Data"
  | .opaqueObject => "Opaque Object"

/-- `enums.KeyFormatType` members used by the code -/
def fmtRaw : Nat := 1
def fmtOpaque : Nat := 2
def fmtPkcs1 : Nat := 3
def fmtPkcs8 : Nat := 4
def fmtX509 : Nat := 5
/-- `enums.CertificateType.X_509` -/
def certX509 : Nat := 1

/-! ## core secrets (`kmip/core/secrets.py`, `kmip/core/objects.py`) -/

/-- an attribute that holds a primitive wrapper (`Enumeration`, `Integer`) -/
inductive Fld (α : Type) where
  /-- the attribute is `None`: the field is not on the wire -/
  | absent
  /-- a wrapper whose value is `None` (`CryptographicAlgorithm(None)`); it cannot be encoded -/
  | unset
  | val (a : α)
  deriving DecidableEq, Repr, Inhabited

/-- `KeyValue.key_material`: a `KeyMaterial` byte string, or the `KeyMaterialStruct` that `KeyValue.read`
builds for a transparent key (objects.py l.2328-2333); the latter has no `value` attribute -/
inductive Material where
  | bytes (hex : String)
  | struct
  deriving DecidableEq, Repr, Inhabited

structure CoreKeyValue where
  material : Material
  /-- number of `Attribute` structures inside the Key Value (objects.py l.2335-2338) -/
  attrs : Nat
  deriving DecidableEq, Repr, Inhabited

structure CoreKeyBlock where
  format : Fld Nat
  compression : Option Nat
  keyValue : Option CoreKeyValue
  alg : Fld Nat
  len : Fld Int
  wrapping : Option WrapDict
  deriving DecidableEq, Repr, Inhabited

/-- the five Split Key fields (`secrets.SplitKey` properties / `pie.SplitKey` properties) -/
structure SplitFields where
  parts : Option Int
  partId : Option Int
  threshold : Option Int
  method : Option Nat
  primeFieldSize : Option Int
  deriving DecidableEq, Repr, Inhabited

inductive CoreObj where
  /-- `Certificate(certificate_type, certificate_value)`: both wrappers always exist (secrets.py l.66-74) -/
  | certificate (certType : Nat) (value : String)
  | key (kk : KeyKind) (kb : Option CoreKeyBlock)
  | splitKey (s : SplitFields) (kb : Option CoreKeyBlock)
  | secretData (dataType : Fld Nat) (kb : Option CoreKeyBlock)
  /-- `value = none`: the `opaque_data_value` attribute is `None` -/
  | opaqueObj (opaqueType : Fld Nat) (value : Option String)
  deriving DecidableEq, Repr, Inhabited

def CoreObj.kind : CoreObj → Kind
  | .certificate .. => .certificate
  | .key kk _ => kk.kind
  | .splitKey .. => .splitKey
  | .secretData .. => .secretData
  | .opaqueObj .. => .opaqueObject

/-! ## pie objects (`kmip/pie/objects.py`) -/

/-- one `ManagedObjectName` row (sqltypes.py l.131-146) -/
structure NameRow where
  name : String
  index : Int
  nameType : Option Nat
  deriving DecidableEq, Repr, Inhabited

/-- `CryptographicObject` (objects.py l.208-262); `OpaqueObject` is not one -/
structure PieCrypto where
  /-- `cryptographic_usage_masks`: a Python list, in order, duplicates possible -/
  masks : List Nat
  state : Option Nat
  deriving DecidableEq, Repr, Inhabited

/-- `Key` (objects.py l.265-625) -/
structure PieKey where
  alg : Option Nat
  len : Option Int
  format : Option Nat
  /-- the 32 `_kdw_*` attributes -/
  cols : Columns
  deriving DecidableEq, Repr, Inhabited

inductive PieSpecific where
  | certificate (cr : PieCrypto) (certType : Option Nat)
  | key (cr : PieCrypto) (kk : KeyKind) (k : PieKey)
  | splitKey (cr : PieCrypto) (k : PieKey) (s : SplitFields)
  | secretData (cr : PieCrypto) (dataType : Option Nat)
  | opaqueObj (opaqueType : Option Nat)
  deriving DecidableEq, Repr, Inhabited

def PieSpecific.kind : PieSpecific → Kind
  | .certificate .. => .certificate
  | .key _ kk _ => kk.kind
  | .splitKey .. => .splitKey
  | .secretData .. => .secretData
  | .opaqueObj .. => .opaqueObject

/-- what an instance holds after its constructor ran (`ManagedObject.__init__` l.137-161 + the subclass) -/
structure PieObj where
  spec : PieSpecific
  /-- `_object_type`, set by the constructor, read by `_build_core_object` -/
  objectType : Option Nat
  value : Option String
  names : List NameRow
  nameIndex : Int
  policy : Option String
  sensitive : Bool
  initialDate : Int
  owner : Option String
  deriving DecidableEq, Repr, Inhabited

def PieObj.kind (p : PieObj) : Kind := p.spec.kind

def PieSpecific.crypto? : PieSpecific → Option PieCrypto
  | .certificate cr _ | .key cr _ _ | .splitKey cr _ _ | .secretData cr _ => some cr
  | .opaqueObj _ => none

def PieSpecific.mapCrypto (f : PieCrypto → PieCrypto) : PieSpecific → PieSpecific
  | .certificate cr t => .certificate (f cr) t
  | .key cr kk k => .key (f cr) kk k
  | .splitKey cr k s => .splitKey (f cr) k s
  | .secretData cr t => .secretData (f cr) t
  | .opaqueObj t => .opaqueObj t

def PieSpecific.key? : PieSpecific → Option PieKey
  | .key _ _ k | .splitKey _ k _ => some k
  | _ => none

def PieSpecific.mapKey (f : PieKey → PieKey) : PieSpecific → PieSpecific
  | .key cr kk k => .key cr kk (f k)
  | .splitKey cr k s => .splitKey cr (f k) s
  | s => s

/-- `CryptographicObject.__init__`: no masks, Pre-Active -/
def freshCrypto : PieCrypto := ⟨[], some 1⟩

/-- the attribute part every constructor leaves behind: one name with index 0 (the `append` listener
`attribute_append_factory`, sqltypes.py l.27-33, numbers it and advances `name_index`), no policy name, not
sensitive, initial date 0, no owner -/
def freshPie (spec : PieSpecific) (value : Option String) : PieObj :=
  { spec := spec, objectType := some spec.kind.objectType, value := value,
    names := [⟨spec.kind.defaultName, 0, some 1⟩], nameIndex := 1, policy := none, sensitive := false,
    initialDate := 0, owner := none }

/-! ## what the pie constructors refuse (`validate()`, setters) -/

/-- SQLite INTEGER: signed 64 bit -/
def fits64 (n : Int) : Bool := -9223372036854775808 ≤ n && n ≤ 9223372036854775807

/-- the `prime_field_size` setter of `SplitKey` (objects.py l.1296-1310, after the repair 8b96c42): `None` or an
integer that fits the column; the other four split key setters accept `None` or any integer / a member -/
def chkPrimeFieldSize : Option Int → C Unit
  | none => pure ()
  | some n => if fits64 n then pure () else valErr "The prime field size must fit in a 64-bit signed integer."

/-- `SymmetricKey.validate` l.710-751, `PublicKey.validate` l.885-924, `PrivateKey.validate` l.1056-1095; the value
is bytes, masks are members and names are strings by construction of this model.  `SplitKey.__init__` (l.1182-1244)
never calls a `validate`; its setters run (`chkPrimeFieldSize`). -/
def validateKey (kk : KeyKind) (k : PieKey) (value : String) : C Unit :=
  match k.alg with
  | none => typeErr "key algorithm must be a CryptographicAlgorithm enumeration"
  | some _ =>
    match k.len with
    | none => typeErr "key length must be an integer"
    | some l =>
      match kk with
      | .symmetric =>
        -- `if not self.key_wrapping_data:` (the property: M13 `fromColumns`)
        if (fromColumns k.cols).isNone && ((blen value * 8 : Nat) : Int) != l then
          valErr "not equal to key value length"
        else pure ()
      | .publicKey =>
        match k.format with
        | none => typeErr "key format type must be a KeyFormatType enumeration"
        | some f =>
          if f == fmtRaw || f == fmtX509 || f == fmtPkcs1 then pure ()
          else valErr "key format type must be one of"
      | .privateKey =>
        match k.format with
        | none => typeErr "key format type must be a KeyFormatType enumeration"
        | some f =>
          if f == fmtRaw || f == fmtPkcs1 || f == fmtPkcs8 then pure ()
          else valErr "key format type must be one of"

/-- the constructor's own validation of an object (what `PieOk` means): `validate()` of the class, the constant the
constructor stores (`SymmetricKey`: Raw, l.687; `X509Certificate`: X.509, l.1538), the `_object_type` it sets -/
def pieOk (p : PieObj) : Bool :=
  p.objectType == some p.kind.objectType &&
  match p.spec, p.value with
  | .certificate _ t, some _ => t == some certX509
  | .key _ kk k, some v =>
    (match validateKey kk k v with | .ok _ => true | .error _ => false) &&
    (kk != .symmetric || k.format == some fmtRaw)
  | .splitKey _ _ s, _ => (match chkPrimeFieldSize s.primeFieldSize with | .ok _ => true | .error _ => false)
  | .secretData _ t, some _ => t.isSome
  | .opaqueObj t, some _ => t.isSome
  | _, none => false

/-! ## core → pie: `ObjectFactory._build_pie_*` -/

/-- `x.value` of a wrapper attribute: `AttributeError` when the attribute is `None` -/
def fldValue {α} : Fld α → C (Option α)
  | .absent => attrErr "object has no attribute"
  | .unset => pure none
  | .val a => pure (some a)

/-- `key_block.key_value.key_material.value` -/
def materialValue : Option CoreKeyBlock → C String
  | none => attrErr "object has no attribute"
  | some kb =>
    match kb.keyValue with
    | none => attrErr "object has no attribute"
    | some ⟨.struct, _⟩ => attrErr "object has no attribute"
    | some ⟨.bytes b, _⟩ => pure b

def keyBlock : Option CoreKeyBlock → C CoreKeyBlock
  | none => attrErr "object has no attribute"
  | some kb => pure kb

/-- `_build_pie_key` l.87-119 -/
def buildPieKey (kk : KeyKind) (kb? : Option CoreKeyBlock) : C PieObj := do
  let kb ← keyBlock kb?
  let alg ← fldValue kb.alg
  let len ← fldValue kb.len
  let value ← materialValue kb?
  let format ← fldValue kb.format
  -- `_build_key_wrapping_data` l.251-282 is the identity on the dictionary; `Key.__init__` stores it as columns
  let cols := toColumns kb.wrapping
  match kk with
  | .symmetric =>
    let k : PieKey := ⟨alg, len, some fmtRaw, cols⟩
    validateKey .symmetric k value
    if k.format != format then typeErr "core key format type not compatible with Pie SymmetricKey"
    else pure (freshPie (.key freshCrypto .symmetric k) (some value))
  | kk =>
    let k : PieKey := ⟨alg, len, format, cols⟩
    validateKey kk k value
    pure (freshPie (.key freshCrypto kk k) (some value))

/-- `ObjectFactory.convert` on a core secret.  `AttributeError`, `TypeError` and `ValueError` are what
`_process_register` answers with Invalid Field (engine.py l.2014-2033). -/
def coreToPie : CoreObj → C PieObj
  | .certificate t v =>
    -- `_build_pie_certificate` l.78-85
    if t == certX509 then pure (freshPie (.certificate freshCrypto (some certX509)) (some v))
    else typeErr "core certificate type not supported"
  | .key kk kb => buildPieKey kk kb
  | .splitKey s kb? => do
    -- `_build_pie_split_key` l.132-147: the arguments are read first, then the constructor's setters run
    let kb ← keyBlock kb?
    let alg ← fldValue kb.alg
    let len ← fldValue kb.len
    let value ← materialValue kb?
    let format ← fldValue kb.format
    chkPrimeFieldSize s.primeFieldSize
    pure (freshPie (.splitKey freshCrypto ⟨alg, len, format, toColumns kb.wrapping⟩ s) (some value))
  | .secretData t kb? => do
    -- `_build_pie_secret_data` l.121-133 reads the type and the key material and (after the repair 683f968) refuses
    -- key wrapping data, which the pie class cannot hold; nothing else of the key block is looked at
    let t ← fldValue t
    let value ← materialValue kb?
    let kb ← keyBlock kb?
    if kb.wrapping.isSome then typeErr "core key wrapping data not compatible with Pie SecretData" else
    match t with
    | none => typeErr "secret data type must be a SecretDataType enumeration"
    | some t => pure (freshPie (.secretData freshCrypto (some t)) (some value))
  | .opaqueObj t v => do
    -- `_build_pie_opaque_object` l.127-130
    let t ← fldValue t
    match v with
    | none => attrErr "object has no attribute"
    | some v =>
      match t with
      | none => typeErr "opaque data type must be an OpaqueDataType enumeration"
      | some t => pure (freshPie (.opaqueObj (some t)) (some v))

/-! ## building core structures -/

/-- `primitives.Integer.validate` l.239-256 (signed 32 bit); the wrapper then holds the integer itself -/
def chkInteger (n : Int) : C Unit :=
  if n > 2147483647 then valErr "integer value greater than accepted max"
  else if n < -2147483648 then valErr "integer value less than accepted min"
  else pure ()

def chkInteger? : Option Int → C Unit
  | some n => chkInteger n
  | none => pure ()

/-- `Wrapper(v)`: a wrapper around `None` holds no value -/
def optFld {α} : Option α → Fld α
  | some a => .val a
  | none => .unset

/-- the setters of `KeyWrappingData`, `EncryptionKeyInformation`, `MACSignatureKeyInformation` (objects.py) and
`CryptographicParameters` (attributes.py): `None` or a value of the right Python type -/
def chkEnum (what : String) : FV → C Unit
  | .none | .enum _ => pure ()
  | _ => typeErr what
def chkText (what : String) : FV → C Unit
  | .none | .text _ => pure ()
  | _ => typeErr what
def chkBytes (what : String) : FV → C Unit
  | .none | .bytes _ => pure ()
  | _ => typeErr what
def chkBool (what : String) : FV → C Unit
  | .none | .bool _ => pure ()
  | _ => typeErr what
def chkInt (what : String) : FV → C Unit
  | .none => pure ()
  | .int n => chkInteger n
  -- `isinstance(True, int)` holds, then `Integer.validate` refuses `type(True)`
  | .bool _ => typeErr "expected (one of)"
  | _ => typeErr what

/-- `CryptographicParameters.__init__`: the thirteen setters in order (6 enumerations, a boolean, 6 integers) -/
def chkCpAt (i : Nat) (v : FV) : C Unit :=
  if i < 6 then chkEnum "enumeration" v
  else if i == 6 then chkBool "random iv must be a boolean" v
  else chkInt "must be an integer" v

def chkCpFrom : Nat → List FV → C Unit
  | _, [] => pure ()
  | i, v :: rest => do
    chkCpAt i v
    chkCpFrom (i + 1) rest

def chkKeyInfo (k : KeyInfo) : C Unit := do
  chkText "Unique identifier must be a string." k.uid
  match k.cp with
  | none => pure ()
  | some l => chkCpFrom 0 l

def chkKeyInfo? : Option KeyInfo → C Unit
  | some k => chkKeyInfo k
  | none => pure ()

/-- `KeyWrappingData(**d)` for the dictionary `d` the `key_wrapping_data` property returned: the setters in order.
The structure then holds exactly the dictionary (an empty key information / parameter dictionary becomes `None`),
so a core `KeyWrappingData` is written as that dictionary. -/
def chkWrap (w : WrapDict) : C Unit := do
  chkEnum "Wrapping method must be a WrappingMethod enumeration." w.method
  chkKeyInfo? w.eki
  chkKeyInfo? w.mski
  chkBytes "MAC/signature must be bytes." w.macSig
  chkBytes "IV/counter/nonce must be bytes." w.iv
  chkEnum "Encoding option must be an EncodingOption enumeration." w.encoding

/-- `if key_wrapping_data: KeyWrappingData(**key_wrapping_data)` (`{}` is falsy) -/
def chkWrap? : Option WrapDict → C Unit
  | some w => chkWrap w
  | none => pure ()

/-- `_build_core_key` l.149-172 / the key block of `_build_core_split_key` l.194-213 (factory direction).
`CryptographicAlgorithm(None)` is a wrapper without a value, `CryptographicLength(None)` holds 0
(`Integer.__init__` l.193-195), `KeyMaterial(None)` holds `b''` (`ByteString.__init__` l.940-943). -/
def factoryKeyBlock (k : PieKey) (value : Option String) : C CoreKeyBlock := do
  chkWrap? (fromColumns k.cols)
  chkInteger (k.len.getD 0)
  pure { format := optFld k.format,
         compression := none,
         keyValue := some ⟨.bytes (value.getD ""), 0⟩,
         alg := optFld k.alg,
         len := .val (k.len.getD 0),
         wrapping := fromColumns k.cols }

/-- `SecretFactory._build_key_block` l.165-206 (engine direction): an algorithm / length of `None` is left out
instead of wrapped, and the wrapping data is built last -/
def engineKeyBlock (format : Option Nat) (value : Option String) (alg : Option Nat) (len : Option Int)
    (wrap : Option WrapDict) : C CoreKeyBlock := do
  chkInteger? len
  chkWrap? wrap
  pure { format := optFld format,
         compression := none,
         keyValue := some ⟨.bytes (value.getD ""), 0⟩,
         alg := match alg with | some a => .val a | none => .absent,
         len := match len with | some n => .val n | none => .absent,
         wrapping := wrap }

/-- `secrets.SplitKey.__init__` l.287-292: three `Integer`s, a member, a `BigInteger` (any size) -/
def chkSplit (s : SplitFields) : C Unit := do
  chkInteger? s.parts
  chkInteger? s.partId
  chkInteger? s.threshold

/-! ## pie → core, factory direction (`ObjectFactory._build_core_*`; the client's Register) -/
def pieToCore (p : PieObj) : C CoreObj :=
  match p.spec with
  | .certificate _ t =>
    -- `_build_core_certificate` l.174-175: `Certificate(None, …)` falls back to X.509, `CertificateValue(None)`
    -- would be `bytes(None)`: TypeError
    match p.value with
    | some v => pure (.certificate (t.getD certX509) v)
    | none => typeErr "cannot convert 'NoneType' object to bytes"
  | .key _ kk k => do
    let kb ← factoryKeyBlock k p.value
    pure (.key kk (some kb))
  | .splitKey _ k s => do
    let kb ← factoryKeyBlock k p.value
    chkSplit s
    pure (.splitKey s (some kb))
  | .secretData _ t => do
    -- `_build_core_secret_data` l.177-192: key format Opaque, no algorithm, no length, no wrapping data
    pure (.secretData (optFld t)
      (some { format := .val fmtOpaque, compression := none, keyValue := some ⟨.bytes (p.value.getD ""), 0⟩,
              alg := .absent, len := .absent, wrapping := none }))
  | .opaqueObj t =>
    -- `_build_core_opaque_object` l.223-229
    pure (.opaqueObj (optFld t) (some (p.value.getD "")))

/-! ## pie → core, engine direction (`KmipEngine._build_core_object`; the server's Get) -/
def engineBuildCore (p : PieObj) : C CoreObj :=
  match p.objectType with
  | none => attrErr "'NoneType' object has no attribute 'name'"
  | some ot =>
    if ot != p.kind.objectType then outside "the _object_type is not the one of the class" else
    match p.spec with
    | .certificate _ t =>
      match p.value with
      | some v => pure (.certificate (t.getD certX509) v)
      | none => pure (.certificate (t.getD certX509) "")     -- `CertificateValue()` (secrets.py l.71-72)
    | .key _ kk k => do
      let kb ← engineKeyBlock k.format p.value k.alg k.len (fromColumns k.cols)
      pure (.key kk (some kb))
    | .splitKey _ k s => do
      let kb ← engineKeyBlock k.format p.value k.alg k.len (fromColumns k.cols)
      chkSplit s
      pure (.splitKey s (some kb))
    | .secretData _ t => do
      let kb ← engineKeyBlock (some fmtOpaque) p.value none none none
      pure (.secretData (optFld t) (some kb))
    | .opaqueObj t =>
      pure (.opaqueObj (optFld t) (some (p.value.getD "")))

/-! ## pie ⇄ SQL columns -/

/-- `EnumType.process_bind_param` l.101-113: members are truthy, `None` is stored as −1 -/
def encEnum : Option Nat → Int
  | some n => n
  | none => -1

/-- `EnumType.process_result_value` l.115-128 (`self._cls(value)`: the stored integer is a member's value) -/
def decEnum (i : Int) : Option Nat := if i == -1 then none else some i.toNat

/-- `enums.CryptographicUsageMask` in definition order: 24 single bits -/
def maskBits : List Nat := (List.range 24).map (fun i => 2 ^ i)

/-- `UsageMaskType.process_bind_param` l.46-59 -/
def encMask (l : List Nat) : Nat := l.foldl (fun acc m => acc ||| m) 0

/-- `UsageMaskType.process_result_value` l.61-76 -/
def decMask (v : Nat) : List Nat :=
  if v != 0 then maskBits.filter (fun m => m &&& v != 0) else []

/-- an `EnumType` column holding one of the `_kdw_*` enumerations -/
def encEnumFV : FV → FV
  | .none => .int (-1)
  | .enum n => .int n
  | v => v
def decEnumFV : FV → FV
  | .int i => if i == -1 then .none else .enum i.toNat
  | v => v

/-- the first `n` entries are `EnumType` columns -/
def mapFirst (f : FV → FV) : Nat → List FV → List FV
  | 0, l => l
  | _, [] => []
  | n + 1, v :: rest => f v :: mapFirst f n rest

/-- the 32 `_kdw_*` columns as stored: the 14 enumeration columns through `EnumType` -/
def encCols (c : Columns) : Columns :=
  { c with method := encEnumFV c.method, ekiCp := mapFirst encEnumFV 6 c.ekiCp,
           mskiCp := mapFirst encEnumFV 6 c.mskiCp, encoding := encEnumFV c.encoding }
def decCols (c : Columns) : Columns :=
  { c with method := decEnumFV c.method, ekiCp := mapFirst decEnumFV 6 c.ekiCp,
           mskiCp := mapFirst decEnumFV 6 c.mskiCp, encoding := decEnumFV c.encoding }

structure NameRec where
  name : String
  index : Int
  nameType : Int
  deriving DecidableEq, Repr, Inhabited

/-- `crypto_objects` -/
structure CryptoRow where
  mask : Nat
  state : Int
  deriving DecidableEq, Repr, Inhabited

/-- `keys` -/
structure KeyRow where
  alg : Int
  len : Option Int
  format : Int
  cols : Columns
  deriving DecidableEq, Repr, Inhabited

/-- `split_keys` -/
structure SplitRow where
  parts : Option Int
  partId : Option Int
  threshold : Option Int
  method : Int
  primeFieldSize : Option Int
  deriving DecidableEq, Repr, Inhabited

/-- the rows of the joined-inheritance tables below `managed_objects`; `class_type` selects the variant -/
inductive RowSpecific where
  | certificate (cr : CryptoRow) (certType : Int)
  | key (cr : CryptoRow) (kk : KeyKind) (k : KeyRow)
  | splitKey (cr : CryptoRow) (k : KeyRow) (s : SplitRow)
  | secretData (cr : CryptoRow) (dataType : Int)
  | opaqueObj (opaqueType : Int)
  deriving DecidableEq, Repr, Inhabited

def RowSpecific.kind : RowSpecific → Kind
  | .certificate .. => .certificate
  | .key _ kk _ => kk.kind
  | .splitKey .. => .splitKey
  | .secretData .. => .secretData
  | .opaqueObj .. => .opaqueObject

/-- one stored object: the `managed_objects` row, its `managed_object_names` rows (ordered by id) and the
sub-table rows -/
structure Row where
  spec : RowSpecific
  objectType : Int
  value : Option String
  nameIndex : Int
  names : List NameRec
  /-- `operation_policy_name` has the column default `'default'` (objects.py l.104-108) -/
  policy : String
  sensitive : Bool
  initialDate : Int
  owner : Option String
  deriving DecidableEq, Repr, Inhabited

def Row.classType (r : Row) : String := r.spec.kind.classType

/-- the driver raises `OverflowError` ("Python int too large to convert to SQLite INTEGER") beyond `fits64` -/
def chk64 (n : Int) : C Unit := if fits64 n then pure () else overflowErr "Python int too large to convert to SQLite INTEGER"
def chk64? : Option Int → C Unit
  | some n => chk64 n
  | none => pure ()
def chk64FV : FV → C Unit
  | .int n => chk64 n
  | _ => pure ()

def encCrypto (cr : PieCrypto) : CryptoRow := ⟨encMask cr.masks, encEnum cr.state⟩
def decCrypto (cr : CryptoRow) : PieCrypto := ⟨decMask cr.mask, decEnum cr.state⟩

def encKey (k : PieKey) : KeyRow := ⟨encEnum k.alg, k.len, encEnum k.format, encCols k.cols⟩
def decKey (k : KeyRow) : PieKey := ⟨decEnum k.alg, k.len, decEnum k.format, decCols k.cols⟩

def encSplit (s : SplitFields) : SplitRow := ⟨s.parts, s.partId, s.threshold, encEnum s.method, s.primeFieldSize⟩
def decSplit (s : SplitRow) : SplitFields := ⟨s.parts, s.partId, s.threshold, decEnum s.method, s.primeFieldSize⟩

def chkKey64 (k : PieKey) : C Unit := do
  chk64? k.len
  k.cols.ekiCp.forM chk64FV
  k.cols.mskiCp.forM chk64FV
def chkSplit64 (s : SplitFields) : C Unit := do
  chk64? s.parts; chk64? s.partId; chk64? s.threshold; chk64? s.primeFieldSize

def chkSpec64 : PieSpecific → C Unit
  | .key _ _ k => chkKey64 k
  | .splitKey _ k s => do chkKey64 k; chkSplit64 s
  | _ => pure ()

/-- every integer attribute fits a SQLite INTEGER (`Integer` / `BigInteger` columns alike) -/
def chkStorable (p : PieObj) : C Unit := do
  chk64 p.nameIndex
  chk64 p.initialDate
  p.names.forM (fun n => chk64 n.index)
  chkSpec64 p.spec

/-- the rows the INSERTs of one object write -/
def rowOf (p : PieObj) : Row :=
  { spec := match p.spec with
      | .certificate cr t => .certificate (encCrypto cr) (encEnum t)
      | .key cr kk k => .key (encCrypto cr) kk (encKey k)
      | .splitKey cr k s => .splitKey (encCrypto cr) (encKey k) (encSplit s)
      | .secretData cr t => .secretData (encCrypto cr) (encEnum t)
      | .opaqueObj t => .opaqueObj (encEnum t),
    objectType := encEnum p.objectType, value := p.value, nameIndex := p.nameIndex,
    names := p.names.map (fun n => ⟨n.name, n.index, encEnum n.nameType⟩),
    policy := p.policy.getD "default", sensitive := p.sensitive, initialDate := p.initialDate,
    owner := p.owner }

/-- session add + commit -/
def pieToRow (p : PieObj) : C Row := do
  chkStorable p
  pure (rowOf p)

/-- query in a new session: the polymorphic load of one object -/
def rowToPie (r : Row) : PieObj :=
  { spec := match r.spec with
      | .certificate cr t => .certificate (decCrypto cr) (decEnum t)
      | .key cr kk k => .key (decCrypto cr) kk (decKey k)
      | .splitKey cr k s => .splitKey (decCrypto cr) (decKey k) (decSplit s)
      | .secretData cr t => .secretData (decCrypto cr) (decEnum t)
      | .opaqueObj t => .opaqueObj (decEnum t),
    objectType := decEnum r.objectType, value := r.value, nameIndex := r.nameIndex,
    names := r.names.map (fun n => ⟨n.name, n.index, decEnum n.nameType⟩),
    policy := some r.policy, sensitive := r.sensitive, initialDate := r.initialDate, owner := r.owner }

/-! ## representation invariants of a pie object (not validation: how this model writes Python values) -/

def fvIsEnum : FV → Bool | .none | .enum _ => true | _ => false
def fvIsText : FV → Bool | .none | .text _ => true | _ => false
def fvIsBytes : FV → Bool | .none | .bytes _ => true | _ => false
def fvIsBool : FV → Bool | .none | .bool _ => true | _ => false
def fvIsInt : FV → Bool | .none | .int _ => true | _ => false

/-- thirteen parameters: six members, a boolean, six integers -/
def cpTyped : List FV → Bool
  | [a, b, c, d, e, f, g, h, i, j, k, l, m] =>
    fvIsEnum a && fvIsEnum b && fvIsEnum c && fvIsEnum d && fvIsEnum e && fvIsEnum f && fvIsBool g &&
    fvIsInt h && fvIsInt i && fvIsInt j && fvIsInt k && fvIsInt l && fvIsInt m
  | _ => false

/-- every `_kdw_*` attribute holds `None` or a value of its column's Python type -/
def colsTyped (c : Columns) : Bool :=
  fvIsEnum c.method && fvIsText c.ekiUid && cpTyped c.ekiCp && fvIsText c.mskiUid && cpTyped c.mskiCp &&
  fvIsBytes c.macSig && fvIsBytes c.iv && fvIsEnum c.encoding

/-- masks are members of `CryptographicUsageMask`, `_kdw_*` attributes are typed -/
def pieWf (p : PieObj) : Bool :=
  (match p.spec.crypto? with | some cr => cr.masks.all (fun m => maskBits.contains m) | none => true) &&
  (match p.spec.key? with | some k => colsTyped k.cols | none => true)

end Kmip.ConvObj
