/-
M15 — RESPONSE ENCODING: what `ResponseMessage.write(stream, kmip_version)` emits for the response the engine
composed, as an M1 item tree (`Kmip.TTLV.Item`), per protocol version (10, 11, 12, 13, 14, 20).
Transcribed from /repo as it is:

  kmip/core/messages/messages.py      ResponseMessage.write l.551-565, ResponseHeader.write l.219-247,
                                      ResponseBatchItem.write l.443-474  (-> `Envelope.buildResponse`, reused)
  kmip/core/messages/payloads/*.py    the `write()` of the 21 RESPONSE payloads the engine builds
  kmip/core/objects.py                Attribute.write, Attributes.write, convert_template_attribute_to_attributes,
                                      KeyBlock.write, KeyValue.write, KeyMaterial
  kmip/core/secrets.py                Certificate / SymmetricKey / PublicKey / PrivateKey / SplitKey / SecretData /
                                      OpaqueObject .write
  kmip/core/attributes.py             Name.write, ApplicationSpecificInformation.write
  kmip/core/factories/secrets.py      SecretFactory._build_key_block (which optional fields of a Key Block exist)
  kmip/services/server/engine.py      `_process_*`: which fields of each response payload the engine fills in
                                      (template attributes: never; located items: never; Query: operations and
                                      vendor identification only), `_build_core_object`

The input is the engine model's abstraction of a result (`Data`, exactly what `harness/lib/impl_engine.py:data_of`
extracts from a real response payload).  `none` = `write` raises (a mandatory field is absent: the session then
answers General Failure, session.py l.238-255, C12 `unencodable_response_answered`).

What `Data` does not carry and IS on the wire is an explicit argument `extra` (a list of already-built items the
harness takes from the real response; "oracle subtree"):
  * Get of a wrapped key        the items of `extra` tagged Key Wrapping Data close the Key Block
  * Get of a split key          the items of `extra` not tagged Key Wrapping Data (Split Key Parts, Key Part
                                Identifier, Split Key Threshold, Split Key Method, Prime Field Size) precede the Key Block
  * Encrypt                     IV/Counter/Nonce (always written), Authenticated Encryption Tag (from KMIP 1.4 on)
Constants of the server on the wire: Create's Object Type (the request's, Symmetric Key on every success:
`opCreate`), the Query vendor identification string.

Primitive encodings are M1's (`TTLV.encode`); that /repo's primitive writers agree with M1 is C02 `py_prim_eq_spec`.
No Mathlib.
-/
import KmipModel.EngineResponse
import KmipModel.Decode
import KmipModel.Lemmas.TTLVItem
namespace Kmip.Encode
open Kmip Kmip.TTLV
open Kmip.Decode
open Kmip.EngineResponse (bytesOf verPair)

/-! ### leaves -/

def txt (t : Nat) (s : String) : TItem := .prim t (.textString (bytesOf s))
def enm (t n : Nat) : TItem := .prim t (.enumeration n)
def int (t : Nat) (n : Int) : TItem := .prim t (.integer n)
def byt (t : Nat) (b : Bytes) : TItem := .prim t (.byteString b)

def optL {α} (o : Option α) (f : α → TItem) : List TItem :=
  match o with
  | some a => [f a]
  | none => []

/-- `bytes.fromhex`: two hexadecimal digits per byte (either case); anything else has no value -/
def hexVal (c : Char) : Option Nat :=
  if '0' ≤ c ∧ c ≤ '9' then some (c.toNat - 48)
  else if 'a' ≤ c ∧ c ≤ 'f' then some (c.toNat - 87)
  else if 'A' ≤ c ∧ c ≤ 'F' then some (c.toNat - 55)
  else none

def unhexL : List Char → Option Bytes
  | [] => some []
  | [_] => none
  | a :: b :: r =>
    match hexVal a, hexVal b, unhexL r with
    | some x, some y, some rest => some (UInt8.ofNat (x * 16 + y) :: rest)
    | _, _, _ => none

def unhex (s : String) : Option Bytes := unhexL s.toList

def tagOfItem : TItem → Nat
  | .prim t _ => t
  | .struct t _ => t

/-! ### attributes -/

/-- the one attribute whose value class is an Interval (factories/attribute_values.py `_create_lease_time`);
`data_of` abstracts Integer and Interval alike to `AVal.int` -/
def isInterval (name : String) : Bool := valueByName.lookup (normName name) == some VSpec.interval

/-- `attribute_value.write` with the tag the holder gave the value object (Attribute Value in 1.x, the
attribute's own tag in 2.0).  primitives.py Enumeration / Integer / Interval / TextString / Boolean / DateTime;
attributes.py Name.write l.126-136 (Name Value, Name Type), ApplicationSpecificInformation.write l.1189-1230
(Application Namespace, Application Data).  A value class the abstraction does not describe has no encoding here. -/
def encValue (tag : Nat) (name : String) : AVal → Option TItem
  | .enum n => some (enm tag n)
  | .int n =>
    if isInterval name then (if 0 ≤ n then some (.prim tag (.interval n.toNat)) else none)
    else some (int tag n)
  | .text s => some (txt tag s)
  | .bool b => some (.prim tag (.boolean b))
  | .date n => some (.prim tag (.dateTime n))
  | .name s t => some (.struct tag [txt T.nameValue s, enm T.nameType t])
  | .appInfo ns d => some (.struct tag [txt T.applicationNamespace ns, txt T.applicationData d])
  | .other => none

/-- objects.py Attribute.write l.125-136 (KMIP 1.x): Attribute Name, [Attribute Index], Attribute Value.
No version test: what may be sent under a version is the engine's business (`getAttrsStep`, C16). -/
def encAttr1x (a : TAttr) : Option TItem :=
  match encValue T.attributeValue a.name a.value with
  | some v => some (.struct T.attribute_ ([txt T.attributeName a.name] ++ optL a.index (int T.attributeIndex) ++ [v]))
  | none => none

/-- `enums.is_attribute(tag, KMIP 2.0)` -/
def isAttribute20 (tag : Nat) : Bool := ((attributeTags.lookup 20).getD []).contains tag

/-- one element of the KMIP 2.0 `Attributes` structure: objects.py `convert_template_attribute_to_attributes`
l.3570-3593 (`enums.convert_attribute_name_to_tag` raises ValueError for an unknown name; the value object is
re-tagged) and Attributes.write l.888-927 (`is_attribute(tag, kmip_version)` or AttributeNotSupported) -/
def encAttr20 (a : TAttr) : Option TItem :=
  match attributeNameTags.lookup a.name with
  | none => none
  | some tag => if isAttribute20 tag then encValue tag a.name a.value else none

def mapO {α β} (f : α → Option β) : List α → Option (List β)
  | [] => some []
  | a :: as =>
    match f a, mapO f as with
    | some b, some bs => some (b :: bs)
    | _, _ => none

/-! ### managed objects (Get) -/

def isKwd (i : TItem) : Bool := tagOfItem i == T.keyWrappingData

/-- objects.py KeyBlock.write l.2207-2239 as `SecretFactory._build_key_block` fills it: Key Format Type, (no Key
Compression Type,) Key Value { Key Material } (KeyValue.write l.2343-2353: the server never attaches attributes),
[Cryptographic Algorithm], [Cryptographic Length], [Key Wrapping Data] -/
def encKeyBlock (format : Nat) (value : Bytes) (alg len : Option Nat) (kwd : List TItem) : TItem :=
  .struct T.keyBlock ([enm T.keyFormatType format, .struct T.keyValue [byt T.keyMaterial value]]
    ++ optL alg (enm T.cryptographicAlgorithm) ++ optL len (fun (l : Nat) => int T.cryptographicLength (Int.ofNat l)) ++ kwd)

/-- the `secret` of a Get response (engine.py `_build_core_object` l.477-551, secrets.py) -/
def encSecret (otype : Nat) (value : Bytes) (alg len format subtype : Option Nat) (wrapped : Bool)
    (extra : List TItem) : Option TItem :=
  let kwd := if wrapped then extra.filter isKwd else []
  if otype == OT.certificate then
    -- Certificate.write l.99-117: Certificate Type, Certificate Value
    subtype.map (fun st => .struct T.certificate_ [enm T.certificateType st, byt T.certificateValue value])
  else if otype == OT.opaqueData then
    -- OpaqueObject.write l.758-767: Opaque Data Type, Opaque Data Value
    subtype.map (fun st => .struct T.opaqueObject [enm T.opaqueDataType st, byt T.opaqueDataValue value])
  else if otype == OT.symmetricKey then
    format.map (fun f => .struct T.symmetricKey [encKeyBlock f value alg len kwd])
  else if otype == OT.publicKey then
    format.map (fun f => .struct T.publicKey [encKeyBlock f value alg len kwd])
  else if otype == OT.privateKey then
    format.map (fun f => .struct T.privateKey [encKeyBlock f value alg len kwd])
  else if otype == OT.splitKey then
    -- SplitKey.write l.494-571: the five split-key fields (oracle subtree), then the Key Block
    format.map (fun f => .struct T.splitKey (extra.filter (fun i => !isKwd i) ++ [encKeyBlock f value alg len kwd]))
  else if otype == OT.secretData then
    -- SecretData.write l.703-712: Secret Data Type, Key Block
    match format, subtype with
    | some f, some st => some (.struct T.secretData [enm T.secretDataType st, encKeyBlock f value alg len kwd])
    | _, _ => none
  else none

/-! ### response payloads -/

/-- engine.py `_process_query` (QUERY_SERVER_INFORMATION branch): `"PyKMIP {0} Software Server".format(kmip.__version__)`; a constant
of the server (pinned by the byte-equality check of every Query response that asks for server information) -/
def vendorIdentification : String := "PyKMIP 0.11.0.dev1 Software Server"

def uidItem (u : String) : TItem := txt T.uniqueIdentifier u

/-- operations whose response payload is the Unique Identifier alone: Register (register.py l.500-539: the
template attribute is never set by the engine), DeriveKey (derive_key.py), Activate / Revoke / Destroy -/
def uidOnlyOps : List Nat := [Op.register, Op.deriveKey, Op.activate, Op.revoke, Op.destroy]

/-- the tag of the byte string a cryptographic operation returns -/
def cryptoTag (op : Nat) : Option Nat :=
  if op == Op.encrypt || op == Op.decrypt then some T.data_
  else if op == Op.sign then some T.signatureData
  else if op == Op.mac then some T.macData
  else none

/-- Encrypt only (encrypt.py l.542-593): IV/Counter/Nonce when the backend returned one, the Authenticated
Encryption Tag from KMIP 1.4 on -/
def encryptExtra (ver op : Nat) (extra : List TItem) : List TItem :=
  if op == Op.encrypt then
    extra.filter (fun i => tagOfItem i == T.ivCounterNonce) ++
    (if ver ≥ 14 then extra.filter (fun i => tagOfItem i == T.authenticatedEncryptionTag) else [])
  else []

/-- **The children of the Response Payload** for operation `op` answered with `d` under protocol version `ver`. -/
def encData (ver op : Nat) (extra : List TItem) : Data → Option (List TItem)
  | .uid u =>
    -- create.py l.470-517: Object Type, Unique Identifier (template attribute: None)
    if op == Op.create then some [enm T.objectType OT.symmetricKey, uidItem u]
    else if uidOnlyOps.contains op then some [uidItem u]
    -- set_attribute.py l.329-373: VersionNotSupported below KMIP 2.0
    else if op == Op.setAttribute then (if ver ≥ 20 then some [uidItem u] else none)
    else none
  | .uidAttr u a =>
    -- modify_attribute.py l.436-480 / delete_attribute.py l.491-538: the attribute below 2.0 (InvalidField when
    -- it is missing), the identifier alone from 2.0 on
    if op == Op.modifyAttribute || op == Op.deleteAttribute then
      if ver < 20 then
        match a with
        | some a => (encAttr1x a).map (fun x => [uidItem u, x])
        | none => none
      else some [uidItem u]
    else none
  | .keyPair priv pub =>
    -- create_key_pair.py l.740-797: private, public; template attributes never set
    if op == Op.createKeyPair then
      some [txt T.privateKeyUniqueIdentifier priv, txt T.publicKeyUniqueIdentifier pub]
    else none
  | .uids us =>
    -- locate.py l.485-513: Located Items never set by the engine; the identifiers
    if op == Op.locate then some (us.map uidItem) else none
  | .object otype u value alg len format subtype wrapped =>
    -- get.py l.469-512: Object Type, Unique Identifier, the secret
    if op == Op.get then
      match unhex value with
      | none => none
      | some v =>
        match encSecret otype v alg len format subtype wrapped extra with
        | some s => some [enm T.objectType otype, uidItem u, s]
        | none => none
    else none
  | .attrs u as =>
    -- get_attributes.py l.401-451: Attribute* below 2.0; from 2.0 on one Attributes structure, InvalidField when
    -- the list is empty
    if op == Op.getAttributes then
      if ver < 20 then (mapO encAttr1x as).map (fun xs => uidItem u :: xs)
      else if as.isEmpty then none
      else (mapO encAttr20 as).map (fun xs => [uidItem u, .struct T.attributes_ xs])
    else none
  | .names u ns =>
    -- get_attribute_list.py l.333-401: InvalidField when there is no name; Attribute Name below 2.0, from 2.0 on an
    -- Enumeration tagged Attribute Reference whose value is the attribute's tag
    if op == Op.getAttributeList then
      if ns.isEmpty then none
      else if ver < 20 then some (uidItem u :: ns.map (txt T.attributeName))
      else (mapO (fun n => (attributeNameTags.lookup n).map (enm T.attributeReference)) ns).map (fun xs => uidItem u :: xs)
    else none
  | .ops os vendor =>
    -- query.py l.886-993 with what `_process_query` fills in: Operation*, [Vendor Identification]
    if op == Op.query then
      some (os.map (enm T.operation_) ++ (if vendor then [txt T.vendorIdentification vendorIdentification] else []))
    else none
  | .versions vs =>
    -- discover_versions.py l.110-121: Protocol Version*
    if op == Op.discoverVersions then
      some (vs.map (fun v => .struct T.protocolVersion
        [int T.protocolVersionMajor (verPair v).1, int T.protocolVersionMinor (verPair v).2]))
    else none
  | .crypto u c =>
    match c with
    | .ok t =>
      -- encrypt.py l.542-593 / decrypt.py l.509-547 (Data), sign.py l.354-395 (Signature Data), mac.py l.200-220 (MAC Data)
      match cryptoTag op, unhex t with
      | some tag, some b => some ([uidItem u, byt tag b] ++ encryptExtra ver op extra)
      | _, _ => none
    | .verdict b =>
      -- signature_verify.py l.629-678: Validity Indicator (Valid 1 / Invalid 2)
      if op == Op.signatureVerify then some [uidItem u, enm T.validityIndicator (if b then 1 else 2)] else none
    | _ => none

/-! ### which `Data` shape belongs to which operation -/

/-- the result shapes an operation's handler can return (`Engine/Ops.lean`; proved: `processOperation_data_fits`) -/
def shapeFits (op : Nat) : Data → Bool
  | .uid _ => op == Op.create || uidOnlyOps.contains op || op == Op.setAttribute
  | .uidAttr _ _ => op == Op.modifyAttribute || op == Op.deleteAttribute
  | .keyPair _ _ => op == Op.createKeyPair
  | .uids _ => op == Op.locate
  | .object .. => op == Op.get
  | .attrs _ _ => op == Op.getAttributes
  | .names _ _ => op == Op.getAttributeList
  | .ops _ _ => op == Op.query
  | .versions _ => op == Op.discoverVersions
  | .crypto _ (.ok _) => (cryptoTag op).isSome
  | .crypto _ (.verdict _) => op == Op.signatureVerify
  | .crypto _ _ => false

/-! ### the response message -/

/-- one executed item; `none` = its payload cannot be written -/
def itemOf (ver : Nat) (extra : List TItem) (r : ItemResult) : Option Envelope.ItemResult :=
  match r.result with
  | .ok d => (encData ver r.op extra d).map (fun ks => EngineResponse.itemOf (fun _ => ks) r)
  | .error _ => some (EngineResponse.itemOf (fun _ => []) r)

/-- the items with the oracle subtrees of each (missing = none) -/
def itemsOf (ver : Nat) : List (List TItem) → List ItemResult → Option (List Envelope.ItemResult)
  | _, [] => some []
  | xs, r :: rs =>
    match itemOf ver (xs.headD []) r, itemsOf ver xs.tail rs with
    | some a, some as => some (a :: as)
    | _, _ => none

/-- **The response message tree** for a request of protocol version `ver` answered at time `now`: the batch
results, or the one-item error response when the request was rejected as a whole.  `none` = `write` raises. -/
def responseItem (ver : Nat) (now : Int) (extras : List (List TItem)) : ReqResult → Option TItem
  | .results rs => (itemsOf ver extras rs).map (fun items => Envelope.buildResponse (verPair ver) now items)
  | .rejected reason msg => some (Envelope.buildErrorResponse (verPair ver) now reason (bytesOf msg))

/-- **The bytes the server answers** -/
def responseBytes (ver : Nat) (now : Int) (extras : List (List TItem)) (res : ReqResult) : Option Bytes :=
  (responseItem ver now extras res).map encode

/-- length of the encoded response, `none` when `write` raises: a mandatory field is missing, or a value has no
encoding (an integer outside its range, a length that does not fit 32 bits - `TItem.validB`) -/
def responseLen (ver : Nat) (now : Int) (extras : List (List TItem)) (res : ReqResult) : Option Nat :=
  match responseItem ver now extras res with
  | some i => if i.validB then some (encode i).length else none
  | none => none

/-! ### the range of values that have an encoding (`DataInRange`)

Explicit and executable: where an Integer is written the value fits 32 bits signed, an Enumeration / Interval
value fits 32 bits unsigned, a Date-Time 64 bits signed; the oracle subtrees are encodable; and the whole message is
shorter than 2^32 bytes (which bounds every Text String, Byte String and Structure length inside it). -/

def i32 (n : Int) : Bool := decide (-2147483648 ≤ n ∧ n < 2147483648)
def i64 (n : Int) : Bool := decide (-9223372036854775808 ≤ n ∧ n < 9223372036854775808)
def u32 (n : Nat) : Bool := decide (n < 4294967296)

def optAll {α} (p : α → Bool) : Option α → Bool
  | some a => p a
  | none => true

def avalInRange (name : String) : AVal → Bool
  | .enum n => u32 n
  | .int n => if isInterval name then decide (n < 4294967296) else i32 n
  | .date n => i64 n
  | .name _ t => u32 t
  | _ => true

def tattrInRange (a : TAttr) : Bool := avalInRange a.name a.value && optAll i32 a.index

def dataInRange : Data → Bool
  | .uidAttr _ a => optAll tattrInRange a
  | .object otype _ _ alg len format subtype _ =>
    u32 otype && optAll u32 alg && optAll (fun (l : Nat) => i32 (Int.ofNat l)) len && optAll u32 format && optAll u32 subtype
  | .attrs _ as => as.all tattrInRange
  | .ops os _ => os.all u32
  | .versions vs => vs.all (fun v => decide (v < 21474836480))
  | _ => true

def resultInRange (r : ItemResult) : Bool :=
  u32 r.op && (match r.result with
    | .ok d => dataInRange d
    | .error (.kmip reason _) => u32 reason
    | .error (.internal _) => true)

/-- the range predicate on a whole answer: header fields, every item, every oracle subtree -/
def fieldsInRange (ver : Nat) (now : Int) (extras : List (List TItem)) : ReqResult → Bool
  | .results rs =>
    decide (ver < 21474836480) && i64 now && decide (rs.length < 2147483648) && rs.all resultInRange &&
    extras.all (fun xs => xs.all Item.validB)
  | .rejected reason _ => decide (ver < 21474836480) && i64 now && u32 reason

/-- `DataInRange` for a response: the fields are in range and the message is shorter than 2^32 bytes -/
def responseInRange (ver : Nat) (now : Int) (extras : List (List TItem)) (res : ReqResult) : Bool :=
  fieldsInRange ver now extras res &&
  (match responseBytes ver now extras res with
   | some bs => decide (bs.length < 4294967296)
   | none => true)

/-! ### version gating (C16), as an executable predicate on message trees -/

/-- elements of a message that exist only in some protocol versions: tag, first version WITH the element, first
version WITHOUT it again (`none`: never removed).  Attributes (the 2.0 container), Attribute Reference, Authenticated
Encryption Tag, Sensitive are introduced later than 1.0; Located Items exists from 1.3 on; Template Attribute and
Operation Policy Name are removed in 2.0. -/
def gatedTags : List (Nat × Nat × Option Nat) :=
  [(T.attributes_, 20, none), (T.attributeReference, 20, none), (T.authenticatedEncryptionTag, 14, none),
   (T.sensitive_, 14, none), (T.locatedItems, 13, none), (T.templateAttribute, 10, some 20),
   (T.operationPolicyName, 10, some 20)]

def gateOpen (ver : Nat) (g : Nat × Nat × Option Nat) : Bool :=
  decide (g.2.1 ≤ ver) && (match g.2.2 with | some hi => decide (ver < hi) | none => true)

/-- may an element tagged `t` be sent under protocol version `ver`? -/
def tagAllowed (ver t : Nat) : Bool := gatedTags.all (fun g => !(g.1 == t) || gateOpen ver g)

mutual
/-- the gated elements present in a tree although the version excludes them -/
def gatingFaults (ver : Nat) : TItem → List Nat
  | .prim t _ => if tagAllowed ver t then [] else [t]
  | .struct t ks => (if tagAllowed ver t then [] else [t]) ++ gatingFaultsL ver ks
def gatingFaultsL (ver : Nat) : List TItem → List Nat
  | [] => []
  | i :: is => gatingFaults ver i ++ gatingFaultsL ver is
end

end Kmip.Encode
