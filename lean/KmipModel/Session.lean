/-
M7 — session: framing, identity establishment, one message-loop iteration, the
outer loop.  Transcribed from /repo as it is:

  kmip/services/server/session.py
    run                    l.93-124    -> `session`, `run`
    _handle_message_loop   l.126-273   -> `handleMessage` (`evaluate`, `emit`, `sizeCheck`)
    authenticate           l.275-336   -> `authLoop`, `authenticate`
    _receive_request       l.338-345   -> `receiveRequest`
    _receive_bytes         l.347-373   -> `recvLoop`, `finish`
  kmip/services/server/auth/utils.py
    get_certificate_from_connection          l.22-32   -> `Option Cert` (falsy => absent)
    get_extended_key_usage_from_certificate  l.35-45   -> `Cert.eku`
    get_client_identity_from_certificate     l.59-75   -> `clientIdentity`
  kmip/services/server/auth/slugs.py
    SLUGSConnector.url setter  l.47-60 -> `normUrl`
    SLUGSConnector.authenticate l.62-108 -> `slugsAuthenticate`

The request decoder (`RequestMessage.read`), the engine (`process_request`) and
the response encoder (`ResponseMessage.write`) are PARAMETERS (`Env`): the
session is modelled for every decoder / engine / encoder.  The byte stream is a
list of `recv()` events.

Not modelled: blocking on a short stream (end of list = the peer closed), a
certificate blob that `cryptography` cannot load (the TLS stack handed it over
after parsing it itself), `str.format` on a URL containing braces, the debug
logging of ciphers.
No Mathlib; used by the executable driver.
-/
import KmipModel.Policy
namespace Kmip.Session
open Kmip

abbrev Bytes := List UInt8

/-! ## (a) framing -/

/-- What the transport will deliver, one element per event:
`none`     the next `recv` returns `None` (non-blocking socket without data),
`some []`  the next `recv` returns `b''` (peer closed),
`some bs`  a segment of bytes is available (a `recv(n)` takes at most `n` of them).
The end of the list is a closed connection (`b''` for ever). -/
abbrev Conn := List (Option Bytes)

/-- `self._max_buffer_size` (l.89) -/
def maxBufferSize : Nat := 4096

/-- one `self._connection.recv(n)` -/
def recv (n : Nat) : Conn → Option Bytes × Conn
  | [] => (some [], [])
  | none :: r => (none, r)
  | some bs :: r =>
    if bs.length ≤ n then (some bs, r) else (some (bs.take n), some (bs.drop n) :: r)

/-- termination measure of the loops: bytes still to be delivered + number of events -/
def connSize : Conn → Nat
  | [] => 0
  | none :: r => 1 + connSize r
  | some bs :: r => 1 + bs.length + connSize r

/-- Result of `_receive_bytes` / `_receive_request`.  The bytes consumed before an
exception are dropped by the code; the model keeps them as `part` for the statements
about the residue. -/
inductive Recv where
  | ok (msg : Bytes)
  | closed (part : Bytes)   -- exceptions.ConnectionClosed (l.359)
  | short (part : Bytes)    -- ValueError (l.365)
  deriving Repr, DecidableEq, Inhabited

/-- l.364-373: the check after the loop -/
def finish (size received : Nat) (msg : Bytes) : Recv :=
  if received ≠ size then .short msg else .ok msg

/-- l.348-362: `while bytes_received < message_size: …` -/
def recvLoop (size received : Nat) (msg : Bytes) (c : Conn) : Recv × Conn :=
  if _h : received < size then
    match recv (min (size - received) maxBufferSize) c with
    | (none, c') => (finish size received msg, c')              -- `break`
    | (some p, c') =>
      if _hp : p.length = 0 then (.closed msg, c')                -- raise ConnectionClosed
      else recvLoop size (received + p.length) (msg ++ p) c'
  else (finish size received msg, c)
termination_by size - received
decreasing_by omega

/-- `_receive_bytes(message_size)` -/
def recvBytes (size : Nat) (c : Conn) : Recv × Conn := recvLoop size 0 [] c

/-- `struct.unpack('!I', bs)` for a 4-byte string -/
def be32 (bs : Bytes) : Nat := bs.foldl (fun a b => a * 256 + b.toNat) 0

/-- `_receive_request` (l.338-345): 8-byte header, length in bytes 4..7, then the payload. -/
def receiveRequest (c : Conn) : Recv × Conn :=
  match recvBytes 8 c with
  | (.ok header, c1) =>
    match recvBytes (be32 (header.drop 4)) c1 with
    | (.ok payload, c2) => (.ok (header ++ payload), c2)
    | (.closed p, c2) => (.closed (header ++ p), c2)
    | (.short p, c2) => (.short (header ++ p), c2)
  | r => r

/-! ### the loops consume the connection -/

theorem recv_size_le (n : Nat) (c : Conn) : connSize (recv n c).2 ≤ connSize c := by
  unfold recv
  split
  · simp [connSize]
  · simp only [connSize]; omega
  · split
    · simp only [connSize]; omega
    · simp only [connSize, List.length_drop]; omega

/-- a `recv` of at least one byte that does not report "closed" consumed something -/
theorem recv_size_lt (n : Nat) (hn : 0 < n) (c : Conn) :
    (recv n c).1 = some [] ∨ connSize (recv n c).2 < connSize c := by
  unfold recv
  split
  · left; rfl
  · right; simp only [connSize]; omega
  · split
    · right; simp only [connSize]; omega
    · right; simp only [connSize, List.length_drop]; omega

theorem recvLoop_size_le (size received : Nat) (msg : Bytes) (c : Conn) :
    connSize (recvLoop size received msg c).2 ≤ connSize c := by
  fun_induction recvLoop size received msg c with
  | case1 received msg c h c' hr =>
    have := recv_size_le (min (size - received) maxBufferSize) c
    rw [hr] at this; exact this
  | case2 received msg c h p c' hr hp =>
    have := recv_size_le (min (size - received) maxBufferSize) c
    rw [hr] at this; exact this
  | case3 received msg c h p c' hr hp ih =>
    have := recv_size_le (min (size - received) maxBufferSize) c
    rw [hr] at this; simp only at this; omega
  | case4 received msg c h => exact Nat.le_refl _

/-- if at least one byte is still wanted, either the peer closed or the connection shrank -/
theorem recvLoop_size_lt (size received : Nat) (msg : Bytes) (c : Conn) (h : received < size) :
    (∃ p, (recvLoop size received msg c).1 = .closed p) ∨
    connSize (recvLoop size received msg c).2 < connSize c := by
  have hn : 0 < min (size - received) maxBufferSize := by simp [maxBufferSize]; omega
  rw [recvLoop]
  simp only [h, ↓reduceDIte]
  have h1 := recv_size_lt (min (size - received) maxBufferSize) hn c
  split
  · rename_i c' hr
    rw [hr] at h1; simp at h1; right; exact h1
  · rename_i p c' hr
    rw [hr] at h1; simp only at h1
    split
    · left; exact ⟨msg, rfl⟩
    · rename_i hp
      right
      rcases h1 with h1 | h1
      · simp at h1; subst h1; simp at hp
      · have := recvLoop_size_le size (received + p.length) (msg ++ p) c'
        omega

theorem receiveRequest_size_lt (c : Conn) :
    (∃ p, (receiveRequest c).1 = .closed p) ∨ connSize (receiveRequest c).2 < connSize c := by
  unfold receiveRequest recvBytes
  have h1 := recvLoop_size_lt 8 0 [] c (by omega)
  split
  · rename_i header c1 hh
    rw [hh] at h1; simp at h1
    have h2 := recvLoop_size_le (be32 (header.drop 4)) 0 [] c1
    split
    · rename_i payload c2 hp; rw [hp] at h2; right; simp only at h2 ⊢; omega
    · rename_i p c2 hp; left; exact ⟨_, rfl⟩
    · rename_i p c2 hp; rw [hp] at h2; right; simp only at h2 ⊢; omega
  · rename_i r hne
    rcases h1 with ⟨p, h1⟩ | h1
    · left; exact ⟨p, h1⟩
    · right; exact h1

/-! ## (b) identity establishment -/

/-- an extended-key-usage entry: the client-authentication OID or any other -/
inductive Eku where
  | clientAuth | other
  deriving Repr, DecidableEq, Inhabited

/-- what the session reads from the peer certificate -/
structure Cert where
  /-- `none`: the extension is missing -/
  eku : Option (List Eku)
  /-- all subject common names, in order -/
  commonNames : List String
  deriving Repr, DecidableEq, Inhabited

/-- body of the SLUGS groups reply: not JSON / not an object, or an object whose
`groups` member is absent (`none`) or a list -/
inductive GroupsBody where
  | invalid
  | groups (g : Option (List String))
  deriving Repr, DecidableEq, Inhabited

/-- one `requests.get`: raised, or answered with a status code (and a body) -/
inductive Http where
  | unreachable
  | status (code : Nat) (body : GroupsBody)
  deriving Repr, DecidableEq, Inhabited

/-- the remote SLUGS services as seen from the session: base url ↦ user ↦ reply -/
structure Slugs where
  users : String → String → Http
  groups : String → String → Http

/-- one `(name, settings)` entry of `auth_settings` -/
structure Plugin where
  name : String
  /-- `plugin_config.get("enabled")` -/
  enabled : Option String
  /-- `plugin_config.get("url")` -/
  url : Option String
  deriving Repr, DecidableEq, Inhabited

structure AuthCfg where
  /-- `enable_tls_client_auth` -/
  tlsClientAuth : Bool
  /-- `auth_settings`, in configuration order -/
  plugins : List Plugin
  slugs : Slugs

/-- `get_client_identity_from_certificate`: exactly one common name, else PermissionDenied -/
def clientIdentity (c : Cert) : Option String :=
  match c.commonNames with
  | [cn] => some cn
  | _ => none

/-- slugs.py l.55-56 -/
def normUrl (u : String) : String := if u.endsWith "/" then u else u ++ "/"

/-- `SLUGSConnector(url).authenticate(certificate, …)`; `none` = it raised -/
def slugsAuthenticate (sl : Slugs) (url : Option String) (cert : Cert) : Option Identity :=
  match url with
  | none => none                                     -- ConfigurationError (l.81)
  | some u =>
    match clientIdentity cert with
    | none => none                                   -- PermissionDenied (utils)
    | some user =>
      match sl.users (normUrl u) user with
      | .unreachable => none                         -- ConfigurationError (l.92)
      | .status code _ =>
        if code = 404 then none else                 -- PermissionDenied (l.96)
        match sl.groups (normUrl u) user with
        | .unreachable => none                       -- requests exception propagates (l.101)
        | .status code2 body =>
          if code2 = 404 then none else              -- PermissionDenied (l.102)
          match body with
          | .invalid => none                         -- `.json()` / `.get` raised
          | .groups g => some ⟨some user, g⟩

/-- l.285 -/
def Plugin.supported (p : Plugin) : Bool := "auth:slugs".isPrefixOf p.name
/-- l.285-286: the plugin is tried -/
def Plugin.active (p : Plugin) : Bool := p.supported && (p.enabled == some "True")

/-- the `for auth_settings in self._auth_settings` loop (l.282-314); the Bool is `plugin_enabled` -/
def authLoop (sl : Slugs) (cert : Cert) : List Plugin → Bool → Option Identity × Bool
  | [], en => (none, en)
  | p :: ps, en =>
    if p.active then
      match slugsAuthenticate sl p.url cert with
      | some id => (some id, true)
      | none => authLoop sl cert ps true
    else authLoop sl cert ps en

/-- `KmipSession.authenticate` (l.275-336); `none` = PermissionDenied("Authentication failed.") -/
def authenticate (cfg : AuthCfg) (cert : Cert) : Option Identity :=
  match authLoop cfg.slugs cert cfg.plugins false with
  | (some id, _) => some id
  | (none, true) => none
  | (none, false) =>
    match clientIdentity cert with
    | some u => some ⟨some u, none⟩
    | none => none

/-- l.150-172: certificate present; extended key usage marked for client authentication when checked -/
def certStage (tls : Bool) : Option Cert → Option Cert
  | none => none
  | some cert =>
    if tls then
      match cert.eku with
      | none => none
      | some ek => if Eku.clientAuth ∈ ek then some cert else none
    else some cert

inductive AuthFail where
  | certificate      -- refused before the request is decoded (l.175-183)
  | authentication   -- refused by `authenticate` (l.199-206)
  deriving Repr, DecidableEq, Inhabited

instance : DecidableEq (Except AuthFail Identity) := fun a b =>
  match a, b with
  | .ok x, .ok y => if h : x = y then isTrue (by rw [h]) else isFalse (fun e => by cases e; exact h rfl)
  | .error x, .error y => if h : x = y then isTrue (by rw [h]) else isFalse (fun e => by cases e; exact h rfl)
  | .ok _, .error _ => isFalse (fun e => by cases e)
  | .error _, .ok _ => isFalse (fun e => by cases e)

/-- the identity the session establishes for a connection, or why not -/
def establish (cfg : AuthCfg) (peer : Option Cert) : Except AuthFail Identity :=
  match certStage cfg.tlsClientAuth peer with
  | none => .error .certificate
  | some cert =>
    match authenticate cfg cert with
    | none => .error .authentication
    | some id => .ok id

/-! ## (c) one iteration of `_handle_message_loop` -/

/-- (major, minor) -/
abbrev Ver := Nat × Nat

namespace SRsn
def responseTooLarge : Nat := 2
def authenticationNotSuccessful : Nat := 3
def invalidMessage : Nat := 4
def generalFailure : Nat := 256
end SRsn

/-- result of `engine.process_request(request, identity)` -/
inductive EngineOut (R : Type) where
  | ok (resp : R) (maxSize : Option Int) (ver : Ver)
  | kmipError (reason : Nat)     -- `except exceptions.KmipError as e` → e.reason
  | other                        -- any other exception
  deriving Repr

/-- the response message handed to `write` -/
inductive Response (R : Type) where
  /-- the engine's response -/
  | normal (r : R)
  /-- `build_error_response(version, reason, …)` -/
  | error (hdr : Ver) (reason : Nat)
  deriving Repr, DecidableEq

/-- The parameters of the session: decoder, engine (with its state `σ`), encoder.
`encLen resp v` is the length of `resp` encoded for KMIP version `v`, `none` if `write` raises. -/
structure Env (Q R σ : Type) where
  parse : Bytes → Option Q
  version : Q → Ver
  engine : σ → Q → Identity → EngineOut R × σ
  encLen : Response R → Ver → Option Nat

structure SessionCfg where
  auth : AuthCfg
  /-- `engine.default_protocol_version` -/
  defaultVer : Ver := (1, 2)
  /-- `self._max_response_size` -/
  maxResponseSize : Nat := 1048576

/-- What one iteration did: the message passed to `sendall` (`none`: an exception left
`_handle_message_loop` before anything was sent) and the arguments of the call of
`engine.process_request`, if it was called. -/
structure Outcome (Q R : Type) where
  sent : Option (Response R)
  engineCall : Option (Q × Identity)

/-- state after the try/except cascade l.135-237 -/
structure Mid (Q R : Type) where
  response : Response R
  maxSize : Int
  kmipVersion : Ver
  request : Option Q          -- `none`: `request.request_header` was never filled in
  engineCall : Option (Q × Identity)

/-- l.130-237 -/
def evaluate {Q R σ} (env : Env Q R σ) (cfg : SessionCfg) (peer : Option Cert) (s : σ) (data : Bytes) :
    Mid Q R × σ :=
  match certStage cfg.auth.tlsClientAuth peer with
  | none =>
    (⟨.error (1, 0) SRsn.authenticationNotSuccessful, cfg.maxResponseSize, cfg.defaultVer, none, none⟩, s)
  | some cert =>
    match env.parse data with
    | none =>
      (⟨.error (1, 0) SRsn.invalidMessage, cfg.maxResponseSize, cfg.defaultVer, none, none⟩, s)
    | some req =>
      match authenticate cfg.auth cert with
      | none =>
        (⟨.error (env.version req) SRsn.authenticationNotSuccessful, cfg.maxResponseSize, cfg.defaultVer,
          some req, none⟩, s)
      | some id =>
        match env.engine s req id with
        | (.ok r m v, s') =>
          -- `if max_response_size is not None:` — only an absent maximum keeps the session default
          let maxSize : Int := match m with
            | some k => k
            | none => cfg.maxResponseSize
          (⟨.normal r, maxSize, v, some req, some (req, id)⟩, s')
        | (.kmipError rsn, s') =>
          (⟨.error (env.version req) rsn, cfg.maxResponseSize, cfg.defaultVer, some req, some (req, id)⟩, s')
        | (.other, s') =>
          (⟨.error (env.version req) SRsn.generalFailure, cfg.maxResponseSize, cfg.defaultVer,
            some req, some (req, id)⟩, s')

/-- the size check and the send: `resp` was encoded to `n` bytes.  The replacement is not checked
against the maximum again. -/
def sizeCheck {Q R σ} (env : Env Q R σ) (m : Mid Q R) (resp : Response R) (n : Nat) : Outcome Q R :=
  if (n : Int) > m.maxSize then
    match m.request with
    | none => ⟨none, m.engineCall⟩                      -- `request.request_header` is None: AttributeError
    | some req =>
      let r2 : Response R := .error (env.version req) SRsn.responseTooLarge
      match env.encLen r2 m.kmipVersion with
      | none => ⟨none, m.engineCall⟩                    -- this `write` is not guarded
      | some _ => ⟨some r2, m.engineCall⟩
  else ⟨some resp, m.engineCall⟩

/-- encode (a response that cannot be written is replaced by a General Failure error carrying the
request's version, written under the same KMIP version; that second `write` is not guarded),
replace an oversized response, send.  The `request = none` branches (AttributeError on
`request.request_header`) are reachable only if an error response cannot be written or exceeds
the session maximum. -/
def emit {Q R σ} (env : Env Q R σ) (m : Mid Q R) : Outcome Q R :=
  match env.encLen m.response m.kmipVersion with
  | some n => sizeCheck env m m.response n
  | none =>                                               -- `write` raised
    match m.request with
    | none => ⟨none, m.engineCall⟩
    | some req =>
      let r1 : Response R := .error (env.version req) SRsn.generalFailure
      match env.encLen r1 m.kmipVersion with
      | none => ⟨none, m.engineCall⟩
      | some n1 => sizeCheck env m r1 n1

/-- `_handle_message_loop` after `_receive_request` returned `data` -/
def handleMessage {Q R σ} (env : Env Q R σ) (cfg : SessionCfg) (peer : Option Cert) (s : σ) (data : Bytes) :
    Outcome Q R × σ :=
  (emit env (evaluate env cfg peer s data).1, (evaluate env cfg peer s data).2)

/-- every branch of `emit` leaves the record of the engine call alone -/
theorem sizeCheck_engineCall {Q R σ} (env : Env Q R σ) (m : Mid Q R) (resp : Response R) (n : Nat) :
    (sizeCheck env m resp n).engineCall = m.engineCall := by
  unfold sizeCheck
  split
  · split
    · rfl
    · dsimp only
      split <;> rfl
  · rfl

theorem emit_engineCall {Q R σ} (env : Env Q R σ) (m : Mid Q R) : (emit env m).engineCall = m.engineCall := by
  unfold emit
  split
  · exact sizeCheck_engineCall ..
  · split
    · rfl
    · dsimp only
      split
      · rfl
      · exact sizeCheck_engineCall ..

/-! ## (d) the outer loop -/

inductive Event (Q R : Type) where
  /-- a request was framed and `handleMessage` ran -/
  | handled (data : Bytes) (o : Outcome Q R)
  /-- `_receive_request` raised ValueError: logged, the loop goes on (l.113-115) -/
  | badFrame (part : Bytes)

/-- the framed request an event belongs to -/
def Event.frame? {Q R : Type} : Event Q R → Option Bytes
  | .handled d _ => some d
  | .badFrame _ => none

/-- `while True: try: self._handle_message_loop() except ConnectionClosed: break except Exception: log` -/
def run {Q R σ} (env : Env Q R σ) (cfg : SessionCfg) (peer : Option Cert) (s : σ) (c : Conn) :
    List (Event Q R) × σ :=
  match h : receiveRequest c with
  | (.closed _, _) => ([], s)
  | (.short p, c') =>
    have : connSize c' < connSize c := by
      have := receiveRequest_size_lt c; rw [h] at this; simpa using this
    let t := run env cfg peer s c'
    (.badFrame p :: t.1, t.2)
  | (.ok data, c') =>
    have : connSize c' < connSize c := by
      have := receiveRequest_size_lt c; rw [h] at this; simpa using this
    let r := handleMessage env cfg peer s data
    let t := run env cfg peer r.2 c'
    (.handled data r.1 :: t.1, t.2)
termination_by connSize c

/-- `KmipSession.run`: the loop runs only after a successful TLS handshake -/
def session {Q R σ} (env : Env Q R σ) (cfg : SessionCfg) (handshakeOk : Bool) (peer : Option Cert) (s : σ)
    (c : Conn) : List (Event Q R) × σ :=
  if handshakeOk then run env cfg peer s c else ([], s)

/-- the sequence of `_receive_request` results the loop sees, the closing one included -/
def reads (c : Conn) : List Recv :=
  match h : receiveRequest c with
  | (.closed p, _) => [.closed p]
  | (.short p, c') =>
    have : connSize c' < connSize c := by
      have := receiveRequest_size_lt c; rw [h] at this; simpa using this
    .short p :: reads c'
  | (.ok d, c') =>
    have : connSize c' < connSize c := by
      have := receiveRequest_size_lt c; rw [h] at this; simpa using this
    .ok d :: reads c'
termination_by connSize c

/-- the framed requests of a connection and the residue dropped when it closes -/
def framesOf : List Recv → List Bytes × Bytes
  | [] => ([], [])
  | .ok d :: r => let (fs, p) := framesOf r; (d :: fs, p)
  | .short _ :: r => framesOf r
  | .closed p :: _ => ([], p)

def frames (c : Conn) : List Bytes × Bytes := framesOf (reads c)

end Kmip.Session
