/-
M14 (byte level) — the LENIENT generic TTLV reader that stands between the bytes of a request frame and the
tree `decodeRequest` (KmipModel/Decode.lean) works on.

M1's `TTLV.decode` is the strict parser of the specification.  The readers of /repo are schema directed and more
lenient than that (kmip/core/primitives.py, kmip/core/messages/messages.py):

 * a structure takes `istream.read(self.length)` as its body: when fewer bytes are left it gets what is left
   (every `read` of a Struct subclass: `tstream = BytearrayStream(istream.read(self.length))`);
 * `RequestMessage.read` (messages.py l.475-492) does NOT cut a body at all: header and batch items are read from
   the enclosing stream, the declared length of the message is ignored and so is everything after the last item;
 * `Boolean.read` never looks at the declared length (primitives.py l.748-760), it reads 8 bytes;
 * tags are not restricted to 42xxxx / 54xxxx here (an unknown tag makes `read_tag` fail only when it is read);
 * bytes a reader never looks at (after the items of a class that does not call `is_oversized`:
   LocateRequestPayload, SignRequestPayload, RequestMessage) may be anything.

`lparseList` therefore reads items as far as the per-type readers of primitives.py accept them (`lenientVal` =
the weakest conditions under which the class of that type byte succeeds: Integer/Enumeration/Interval length 4 +
4 zero pad bytes, Long Integer/Date-Time length 8, Big Integer length a positive multiple of 8, Boolean 8 bytes
with value 0/1 whatever the length says, Text String valid UTF-8 + zero padding, Byte String + zero padding) and
represents whatever follows as ONE junk item carrying the next three bytes as its tag (what `is_tag_next` would
see).  Every reader of /repo fails on a junk item, so "junk" is exactly "accepted only where nobody reads".
Junk is encoded inside M1's `Item` type as a Big Integer of length 0 — a value `lenientVal` never produces.
-/
import KmipModel.TTLV
import KmipModel.Prim
namespace Kmip.Decode
open Kmip.TTLV Kmip

/-- the unreadable rest of a stream; its tag is what `Base.is_tag_next` peeks (no tag when fewer than 3 bytes) -/
def junk (bs : Bytes) : Item :=
  .prim (match bs with | a :: b :: c :: _ => ofBE [a, b, c] | _ => 0) (.bigInteger 0 0)

def isJunk : Item → Bool
  | .prim _ (.bigInteger _ 0) => true
  | _ => false

/-- value and remainder as the class for type byte `ty` reads them (primitives.py); `none` = that class raises -/
def lenientVal (ty len : Nat) (r : Bytes) : Option (PVal × Bytes) :=
  if ty = 2 then
    (if len = 4 then (match Prim.read4Pad r with | .ok (x, r') => some (.integer (ofTC 4 x), r') | .error _ => none) else none)
  else if ty = 3 then
    (if len = 8 then (match takeExact 8 r with | some (vb, r') => some (.longInteger (ofTC 8 (ofBE vb)), r') | none => none) else none)
  else if ty = 4 then
    (if len % 8 = 0 ∧ 0 < len then
      (match takeExact len r with | some (vb, r') => some (.bigInteger (ofTC len (ofBE vb)) len, r') | none => none)
     else none)
  else if ty = 5 then
    (if len = 4 then (match Prim.read4Pad r with | .ok (x, r') => some (.enumeration x, r') | .error _ => none) else none)
  else if ty = 6 then
    (match takeExact 8 r with
     | some (vb, r') => if ofBE vb = 1 then some (.boolean true, r') else if ofBE vb = 0 then some (.boolean false, r') else none
     | none => none)
  else if ty = 7 then
    (match Prim.readPadded len r with
     | .ok (vb, r') => if Prim.validUtf8 vb then some (.textString vb, r') else none
     | .error _ => none)
  else if ty = 8 then
    (match Prim.readPadded len r with | .ok (vb, r') => some (.byteString vb, r') | .error _ => none)
  else if ty = 9 then
    (if len = 8 then (match takeExact 8 r with | some (vb, r') => some (.dateTime (ofTC 8 (ofBE vb)), r') | none => none) else none)
  else if ty = 10 then
    (if len = 4 then (match Prim.read4Pad r with | .ok (x, r') => some (.interval x, r') | .error _ => none) else none)
  else none

/-- the items of a stream (fuel: the length of the stream + 1 is enough, every item takes at least 8 bytes) -/
def lparseList : Nat → Bytes → List Item
  | 0, _ => []
  | _ + 1, [] => []
  | f + 1, b :: bs =>
    match splitHeader (b :: bs) with
    | none => [junk (b :: bs)]
    | some (t, ty, len, rest) =>
      if ty = 1 then .struct t (lparseList f (rest.take len)) :: lparseList f (rest.drop len)
      else
        match lenientVal ty len rest with
        | none => [junk (b :: bs)]
        | some (v, rest') => .prim t v :: lparseList f rest'

/-- a request frame as `RequestMessage.read` sees it: tag / type / (ignored) length, then the rest of the stream -/
def lenientTop (bs : Bytes) : Item :=
  match splitHeader bs with
  | none => junk bs
  | some (t, ty, _, rest) => if ty = 1 then .struct t (lparseList (rest.length + 1) rest) else junk bs

end Kmip.Decode
