/-
M16 — REQUEST ENCODING: what `RequestMessage.write(stream, kmip_version)` emits for a request of the engine
model's type `Request` (Engine/Types.lean), as an M1 item tree (`Kmip.TTLV.Item`), per protocol version
(10, 11, 12, 13, 14, 20).  The inverse direction of M14 (`KmipModel/Decode.lean`).

Transcribed from the `write()` methods of /repo as they are:
  kmip/core/messages/messages.py   RequestMessage.write l.506-520, RequestHeader.write l.110-144,
                                   RequestBatchItem.write l.330-354
  kmip/core/messages/contents.py   ProtocolVersion.write l.146-182
  kmip/core/messages/payloads/*.py the `write()` of the 21 dispatched REQUEST payloads (line numbers at each function)
  kmip/core/objects.py             Attribute.write l.125-136, Attributes.write l.888-927,
                                   convert_template_attribute_to_attributes l.3570-3593, TemplateAttribute.write
                                   l.3485-3500, CurrentAttribute.write l.289-337, NewAttribute.write l.470-518,
                                   AttributeReference.write l.674-727, KeyBlock.write l.2207-2239, KeyValue.write
                                   l.2343-2353, EncryptionKeyInformation.write l.2493-2529,
                                   MACSignatureKeyInformation.write l.2675-2711, KeyWrappingSpecification.write
                                   l.3338-3390, RevocationReason.write l.3963-3983
  kmip/core/attributes.py          Name.write l.126-136, CryptographicParameters.write l.677-724, Digest.write
                                   l.924-943, ApplicationSpecificInformation.write l.1189-1230,
                                   DerivationParameters.write l.1481-1526
  kmip/core/secrets.py             Certificate l.99-117, KeyBlockKey l.164-172, SplitKey l.494-571, SecretData
                                   l.703-712, OpaqueObject l.758-767
  kmip/core/factories/attribute_values.py   which value class an attribute NAME gets (`Decode.valueByName`, reused)

WHAT A `Request` MEANS ON THE WIRE is fixed by `harness/lib/impl_engine.py` `build_request` / `build_payload` (the
function every engine check uses to turn the JSON form of a `Request` into a real `RequestMessage`).  Where
`Payload` abstracts from wire content, the encoder emits the representative `build_payload` builds from the same
JSON without optional keys:
  * Encrypt / Decrypt       Data = 16 zero bytes, IV/Counter/Nonce = 16 zero bytes; parameters (when "has parameters")
                            = `some_params()`: CBC, PKCS5, SHA-256, AES
  * Sign / SignatureVerify  Data = "abc", Signature Data = "sig", the same parameters
  * MAC                     Data = "abc", parameters = {Cryptographic Algorithm}
  * DeriveKey               Derivation Method = HASH, parameters = `some_params()`, Derivation Data = the bytes
                            1, 2, …, dataLen (`build_payload`'s default is 01 02; `Wire.pPayload` reads no length, the
                            driver sets dataLen = 2)
  * Get                     Key Compression Type = EC Public Key Type Uncompressed; wrapping: parameters of the
                            encryption key = {NIST Key Wrap}, MAC/signature key "1", attribute names "Name"
  * Register                split key: 3 parts, identifier 1, threshold 2, XOR; secret data: key format OPAQUE,
                            no algorithm / length; certificate / opaque object: no key block
  * templates               the i-th template name is "tmpl<i>"
  * attributes              a Cryptographic Usage Mask is built from the members of the enumeration whose bit is set
                            in the number (`mask_list`): bits outside 0xFFFFFF are not representable;
                            `.other` = {Block Cipher Mode CBC} under Cryptographic Parameters, the default
                            `Digest()` under Digest
The encoders are TOTAL (they return a tree for every input); `okRequest` is the decidable domain on which the
real encoder succeeds and the tree is what it writes (byte equality is checked by
`harness/lib/encode_request_check.py`).  Outside the domain: non-ASCII text (cannot be encoded by /repo, C01
finding), numbers beyond the range of their primitive, enumeration values that are no member, attribute names that
are no member value of `enums.AttributeType` (custom "x-…" names included: not modelled), values of a kind other
than the attribute's class, mandatory fields absent (`write` raises), `Payload.unsupported` (no payload class),
SetAttribute below KMIP 2.0, Register of a Template, MAC without data, key material that is not lower-case hex; and
two cases the real encoder writes but no reader reads back: a Register whose object is of another type than the
announced one (the reader picks the class by the announced type), a KMIP 2.0 attribute whose reader-side factory (by
tag) has no / another value class than the writer-side one (by name).

`norm` is what M14 gives back: the scripted backend outcome is not on the wire (`crypto := .internal`), and the
fields the version's form does not carry are dropped (see `normPayload`).  No Mathlib.
-/
import KmipModel.Decode
namespace Kmip.EncodeRequest
open Kmip Kmip.TTLV Kmip.Decode

/-! ### leaves -/

/-- the UTF-8 encoding of an ASCII string (one byte per character; only used where `isAscii` holds) -/
def asciiBytes (s : String) : Bytes := s.toList.map (fun c => UInt8.ofNat c.toNat)

def txt (t : Nat) (s : String) : TItem := .prim t (.textString (asciiBytes s))
def enm (t n : Nat) : TItem := .prim t (.enumeration n)
def int (t : Nat) (n : Int) : TItem := .prim t (.integer n)
def byt (t : Nat) (b : Bytes) : TItem := .prim t (.byteString b)
def boo (t : Nat) (b : Bool) : TItem := .prim t (.boolean b)
def dat (t : Nat) (n : Int) : TItem := .prim t (.dateTime n)

def optL {α} (o : Option α) (f : α → TItem) : List TItem :=
  match o with
  | some a => [f a]
  | none => []

def ifL (b : Bool) (i : TItem) : List TItem := if b then [i] else []

/-- TextString: ASCII only (a non-ASCII str is constructible but `write` raises, C01) -/
def okText (s : String) : Bool := isAscii s
/-- Integer: `struct.pack('!i')` -/
def okInt (n : Int) : Bool := decide (fitsTC 4 n)
/-- DateTime / LongInteger: `struct.pack('!q')` -/
def okDate (n : Int) : Bool := decide (fitsTC 8 n)
def okOpt {α} (f : α → Bool) : Option α → Bool
  | none => true
  | some a => f a

/-- `bytes.fromhex` of lower-case hexadecimal text -/
def hexVal (c : Char) : Option Nat :=
  if '0' ≤ c ∧ c ≤ '9' then some (c.toNat - 48)
  else if 'a' ≤ c ∧ c ≤ 'f' then some (c.toNat - 87)
  else none

def unhexL : List Char → Option Bytes
  | [] => some []
  | [_] => none
  | a :: b :: r =>
    match hexVal a, hexVal b, unhexL r with
    | some x, some y, some rest => some (UInt8.ofNat (x * 16 + y) :: rest)
    | _, _, _ => none

def unhex (s : String) : Bytes := (unhexL s.toList).getD []
/-- the text is the lower-case hexadecimal form of a byte string -/
def okHex (s : String) : Bool := match unhexL s.toList with | some b => hexOf b == s | none => false

/-! ### attribute values -/

/-- `impl_engine.build_attribute`: the name must be a member VALUE of `enums.AttributeType`; its member name -/
def memberOf (name : String) : Option String := (attributeTypes.find? (fun p => p.2.1 == name)).map (·.1)

/-- the value class `AttributeValueFactory.create_attribute_value` gives the attribute -/
def specOf (name : String) : Option VSpec :=
  match memberOf name with
  | some m => valueByName.lookup m
  | none => none

/-- `impl_engine.mask_list` + `_create_cryptographic_usage_mask`: the members whose bit is set, or-ed -/
def wireInt (name : String) (n : Int) : Int :=
  if name = "Cryptographic Usage Mask" then Int.ofNat (landMask n Mask.all) else n

/-- `attribute_value.write` with the tag the holder gave the value object (Attribute Value in 1.x, the attribute's
own tag in 2.0) -/
def encValue (tag : Nat) (name : String) : VSpec → AVal → TItem
  | .text, .text s => txt tag s
  | .int, .int n => int tag (wireInt name n)
  | .interval, .int n => .prim tag (.interval n.toNat)
  | .bool, .bool b => boo tag b
  | .date, .date n => dat tag n
  | .enum _, .enum n => enm tag n
  | .name, .name s t => .struct tag [txt T.nameValue s, enm T.nameType t]
  | .appInfo, .appInfo ns d => .struct tag [txt T.applicationNamespace ns, txt T.applicationData d]
  | .cryptoParams, .other => .struct tag [enm T.blockCipherMode 1]
  | .digest, .other => .struct tag [enm T.hashingAlgorithm 6, byt T.digestValue [], enm T.keyFormatType 1]
  | _, _ => .struct tag []

def okValue (name : String) : VSpec → AVal → Bool
  | .text, .text s => okText s
  | .int, .int n => okInt (wireInt name n)
  | .interval, .int n => decide (0 ≤ n) && decide (n < 4294967296) && name != "Cryptographic Usage Mask"
  | .bool, .bool _ => true
  | .date, .date n => okDate n
  | .enum ms, .enum n => ms.contains n && decide (n < 4294967296)
  | .name, .name s t => okText s && E.nameType.contains t
  | .appInfo, .appInfo ns d => okText ns && okText d
  | .cryptoParams, .other => true
  | .digest, .other => true
  | _, _ => false

/-- objects.py Attribute.write l.125-136 -/
def encAttr1x (a : TAttr) : TItem :=
  .struct T.attribute_ ([txt T.attributeName a.name] ++ optL a.index (int T.attributeIndex) ++
    [encValue T.attributeValue a.name ((specOf a.name).getD .notImplemented) a.value])

def okAttr1x (a : TAttr) : Bool :=
  okText a.name && okOpt okInt a.index &&
  (match specOf a.name with
   | some sp => okValue a.name sp a.value
   | none => false)

/-- `enums.convert_attribute_name_to_tag` -/
def tagOfName (name : String) : Option Nat := attributeNameTags.lookup name

/-- one element of the KMIP 2.0 forms: the 1.x value object re-tagged with the attribute's own tag
(`convert_template_attribute_to_attributes`; `impl_engine.build_primitive`) -/
def encAttr20 (a : TAttr) : TItem :=
  encValue ((tagOfName a.name).getD 0) a.name ((specOf a.name).getD .notImplemented) a.value

/-- the name has a tag, the tag is an attribute of KMIP 2.0 (`Attributes.write` / `NewAttribute.write` check
`is_attribute`), and the reader's factory (by tag) gives the attribute the value class of the writer's (by name) -/
def okAttr20 (a : TAttr) : Bool :=
  match tagOfName a.name, specOf a.name with
  | some t, some sp =>
    ((attributeTags.lookup 20).getD []).contains t && valueByTag.lookup t == some sp && okValue a.name sp a.value
  | _, _ => false

/-- the `i`-th template name `impl_engine.build_template` makes up -/
def encTemplateName (i : Nat) : TItem :=
  .struct T.name_ [txt T.nameValue ("tmpl" ++ toString i), enm T.nameType 1]

/-- objects.py TemplateAttribute.write l.3485-3500 under the given tag -/
def encTemplate1x (tag : Nat) (t : Template) : TItem :=
  .struct tag ((List.range t.templateNames).map encTemplateName ++ t.attrs.map encAttr1x)

/-- `convert_template_attribute_to_attributes` + Attributes.write: names and indices are not carried -/
def encAttributes20 (tag : Nat) (attrs : List TAttr) : TItem := .struct tag (attrs.map encAttr20)

/-- the template of Create / Register / DeriveKey / CreateKeyPair in the form of the version -/
def encTemplate (v tag1 tag2 : Nat) (t : Template) : TItem :=
  if v < 20 then encTemplate1x tag1 t else encAttributes20 tag2 t.attrs

def okTemplate (v : Nat) (t : Template) : Bool :=
  if v < 20 then t.attrs.all okAttr1x else t.attrs.all okAttr20

/-! ### cryptographic parameters, key blocks, secrets, key wrapping -/

/-- `impl_engine.some_params()`: CBC, PKCS5, SHA-256, AES (CryptographicParameters.write l.677-724) -/
def encSomeParams : TItem :=
  .struct T.cryptographicParameters [enm T.blockCipherMode 1, enm T.paddingMethod 3, enm T.hashingAlgorithm 6,
    enm T.cryptographicAlgorithm 3]

/-- objects.py KeyBlock.write l.2207-2239 with KeyValue.write l.2343-2353 (no attributes, not wrapped) -/
def encKeyBlock (fmt : Nat) (value : Bytes) (alg len : Option Nat) : TItem :=
  .struct T.keyBlock ([enm T.keyFormatType fmt, .struct T.keyValue [byt T.keyMaterial value]] ++
    optL alg (enm T.cryptographicAlgorithm) ++ optL len (fun n => int T.cryptographicLength (Int.ofNat n)))

/-- `impl_engine.build_secret` + secrets.py -/
def encSecret (o : RegObj) : TItem :=
  if o.otype = 1 then
    .struct T.certificate_ [enm T.certificateType (o.subtype.getD 0), byt T.certificateValue (unhex o.value)]
  else if o.otype = 2 ∨ o.otype = 3 ∨ o.otype = 4 then
    .struct (if o.otype = 2 then T.symmetricKey else if o.otype = 3 then T.publicKey else T.privateKey)
      [encKeyBlock (o.format.getD 0) (unhex o.value) o.alg o.len]
  else if o.otype = 5 then
    .struct T.splitKey [int T.splitKeyParts 3, int T.keyPartIdentifier 1, int T.splitKeyThreshold 2,
      enm T.splitKeyMethod 1, encKeyBlock (o.format.getD 0) (unhex o.value) o.alg o.len]
  else if o.otype = 7 then
    .struct T.secretData [enm T.secretDataType (o.subtype.getD 0), encKeyBlock 2 (unhex o.value) none none]
  else if o.otype = 8 then
    .struct T.opaqueObject [enm T.opaqueDataType (o.subtype.getD 0), byt T.opaqueDataValue (unhex o.value)]
  else .struct T.template_ []

def okLen (n : Nat) : Bool := okInt (Int.ofNat n)

def okSecret (o : RegObj) : Bool :=
  okHex o.value &&
  (if o.otype = 1 then (match o.subtype with | some st => E.certificateType.contains st | none => false)
   else if o.otype = 2 ∨ o.otype = 3 ∨ o.otype = 4 then
     (match o.format with | some f => E.keyFormatType.contains f | none => false) &&
     okOpt E.cryptographicAlgorithm.contains o.alg && okOpt okLen o.len
   else if o.otype = 5 then
     (match o.format, o.alg, o.len with
      | some f, some a, some l => E.keyFormatType.contains f && E.cryptographicAlgorithm.contains a && okLen l
      | _, _, _ => false)
   else if o.otype = 7 then (match o.subtype with | some st => E.secretDataType.contains st | none => false)
   else if o.otype = 8 then (match o.subtype with | some st => E.opaqueDataType.contains st | none => false)
   else false)

/-- objects.py KeyWrappingSpecification.write l.3338-3390 as `build_payload` fills it -/
def encWrap (w : WrapSpec) : TItem :=
  .struct T.keyWrappingSpecification
    ([enm T.wrappingMethod w.wrappingMethod] ++
     optL w.encKeyUid (fun u => .struct T.encryptionKeyInformation
       ([txt T.uniqueIdentifier u] ++
        ifL w.encKeyHasParams (.struct T.cryptographicParameters [enm T.blockCipherMode 13]))) ++
     ifL w.macKeyInfo (.struct T.macSignatureKeyInformation [txt T.uniqueIdentifier "1"]) ++
     List.replicate w.attributeNames (txt T.attributeName "Name") ++
     optL w.encodingOption (enm T.encodingOption))

def okWrap (w : WrapSpec) : Bool :=
  E.wrappingMethod.contains w.wrappingMethod && okOpt okText w.encKeyUid && okOpt E.encodingOption.contains w.encodingOption

/-! ### request payloads -/

def uidL (u : Option String) : List TItem := optL u (txt T.uniqueIdentifier)

/-- contents.py ProtocolVersion.write l.146-182 for the version number 10·major+minor -/
def encVersion (v : Nat) : TItem :=
  .struct T.protocolVersion [int T.protocolVersionMajor (Int.ofNat (v / 10)), int T.protocolVersionMinor (Int.ofNat (v % 10))]

/-- Derivation Data of length `n`: the bytes 1, 2, …, n (`build_payload`'s default 01 02 for n = 2) -/
def derivationData (n : Nat) : Bytes := (List.range n).map (fun i => UInt8.ofNat (i + 1))

def zeros16 : Bytes := List.replicate 16 0
def abc : Bytes := [0x61, 0x62, 0x63]
def sig : Bytes := [0x73, 0x69, 0x67]

/-- the attribute of a KMIP 2.0 Current / New Attribute structure -/
def encHolder (tag : Nat) (a : TAttr) : TItem := .struct tag [encAttr20 a]

/-- the body of the request payload structure of each operation, as the payload class's `write` emits it -/
def encPayload (v : Nat) : Payload → List TItem
  -- create.py l.208-273
  | .create ot t => [enm T.objectType ot] ++ optL t (encTemplate v T.templateAttribute T.attributes_)
  -- create_key_pair.py l.364-438
  | .createKeyPair c pr pu =>
      optL c (encTemplate v T.commonTemplateAttribute T.commonAttributes) ++
      optL pr (encTemplate v T.privateKeyTemplateAttribute T.privateKeyAttributes) ++
      optL pu (encTemplate v T.publicKeyTemplateAttribute T.publicKeyAttributes)
  -- register.py l.266-340
  | .register ot t o =>
      [enm T.objectType ot] ++ optL t (encTemplate v T.templateAttribute T.attributes_) ++ optL o encSecret
  -- derive_key.py l.302-389, attributes.py DerivationParameters.write l.1481-1526
  | .deriveKey ot us t dd dl =>
      [enm T.objectType ot] ++ us.map (txt T.uniqueIdentifier) ++
      [enm T.derivationMethod 2,
       .struct T.derivationParameters ([encSomeParams] ++ ifL dd (byt T.derivationData (derivationData dl)))] ++
      optL t (encTemplate v T.templateAttribute T.attributes_)
  -- locate.py l.266-320
  | .locate mx off as =>
      optL mx (int T.maximumItems) ++ optL off (int T.offsetItems) ++
      (if v < 20 then as.map encAttr1x
       else if as.isEmpty then [] else [encAttributes20 T.attributes_ as])
  -- get.py l.218-258
  | .get u f c w =>
      uidL u ++ optL f (enm T.keyFormatType) ++ ifL c (enm T.keyCompressionType 1) ++ optL w encWrap
  -- get_attributes.py l.192-238 (the setter keeps the first occurrence of each name)
  | .getAttributes u ns =>
      uidL u ++
      (if v < 20 then ns.eraseDups.map (txt T.attributeName)
       else ns.eraseDups.map (fun n => enm T.attributeReference ((tagOfName n).getD 0)))
  -- get_attribute_list.py l.105-131
  | .getAttributeList u => uidL u
  -- activate.py l.71-93
  | .activate u => uidL u
  -- revoke.py l.97-127, objects.py RevocationReason.write
  | .revoke u c => uidL u ++ optL c (fun c => .struct T.revocationReason [enm T.revocationReasonCode c])
  -- destroy.py l.46-58
  | .destroy u => uidL u
  -- query.py l.126-157
  | .query fs => fs.map (enm T.queryFunction)
  -- discover_versions.py l.51-62
  | .discoverVersions vs => vs.map encVersion
  -- encrypt.py l.246-297
  | .encrypt u p => uidL u ++ ifL p encSomeParams ++ [byt T.data_ zeros16, byt T.ivCounterNonce zeros16]
  -- decrypt.py l.288-344
  | .decrypt u p => uidL u ++ ifL p encSomeParams ++ [byt T.data_ zeros16, byt T.ivCounterNonce zeros16]
  -- sign.py l.171-209
  | .sign u p => uidL u ++ ifL p encSomeParams ++ [byt T.data_ abc]
  -- signature_verify.py l.322-380
  | .signatureVerify u p => uidL u ++ ifL p encSomeParams ++ [byt T.data_ abc, byt T.signatureData sig]
  -- mac.py l.111-133
  | .mac u alg d =>
      uidL u ++ optL alg (fun a => .struct T.cryptographicParameters [enm T.cryptographicAlgorithm a]) ++
      ifL d (byt T.data_ abc)
  -- set_attribute.py l.150-200
  | .setAttribute u a => uidL u ++ [encHolder T.newAttribute a]
  -- modify_attribute.py l.211-270
  | .modifyAttribute u a cu nw =>
      uidL u ++
      (if v < 20 then optL a encAttr1x
       else optL cu (encHolder T.currentAttribute) ++ optL nw (encHolder T.newAttribute))
  -- delete_attribute.py l.257-321
  | .deleteAttribute u n i cu r =>
      uidL u ++
      (if v < 20 then optL n (txt T.attributeName) ++ optL i (int T.attributeIndex)
       else optL cu (encHolder T.currentAttribute) ++
            optL r (fun n => .struct T.attributeReference [txt T.vendorIdentification "v", txt T.attributeName n]))
  | .unsupported _ => []

def okTemplateO (v : Nat) : Option Template → Bool
  | some t => okTemplate v t
  | none => true

/-- the domain of `encPayload`: the payload class's `write` succeeds under version `v` and M14 reads the result back -/
def okPayload (v : Nat) : Payload → Bool
  | .create ot t => E.objectType.contains ot && t.isSome && okTemplateO v t
  | .createKeyPair c pr pu => okTemplateO v c && okTemplateO v pr && okTemplateO v pu
  | .register ot t o =>
      E.objectType.contains ot && t.isSome && okTemplateO v t &&
      (match o with | some ob => ob.otype == ot && okSecret ob | none => false)
  | .deriveKey ot us t _ _ => E.objectType.contains ot && !us.isEmpty && us.all okText && t.isSome && okTemplateO v t
  | .locate mx off as => okOpt okInt mx && okOpt okInt off && (if v < 20 then as.all okAttr1x else as.all okAttr20)
  | .get u f _ w => okOpt okText u && okOpt E.keyFormatType.contains f && okOpt okWrap w
  | .getAttributes u ns =>
      okOpt okText u && ns.eraseDups.all okText &&
      (v < 20 || ns.eraseDups.all (fun n => (tagOfName n).isSome))
  | .getAttributeList u => okOpt okText u
  | .activate u => okOpt okText u
  | .revoke u c => okOpt okText u && (match c with | some c => E.revocationReasonCode.contains c | none => false)
  | .destroy u => okOpt okText u
  | .query fs => !fs.isEmpty && fs.all E.queryFunction.contains
  | .discoverVersions vs => vs.all (fun v => okInt (Int.ofNat (v / 10)))
  | .encrypt u _ => okOpt okText u
  | .decrypt u _ => okOpt okText u
  | .sign u _ => okOpt okText u
  | .signatureVerify u _ => okOpt okText u
  | .mac u alg d => okOpt okText u && okOpt E.cryptographicAlgorithm.contains alg && d
  | .setAttribute u a => decide (20 ≤ v) && okOpt okText u && okAttr20 a
  | .modifyAttribute u a cu nw =>
      okOpt okText u &&
      (if v < 20 then (match a with | some x => okAttr1x x | none => false)
       else okOpt okAttr20 cu && (match nw with | some x => okAttr20 x | none => false))
  | .deleteAttribute u n i cu r =>
      okOpt okText u &&
      (if v < 20 then (match n with | some x => okText x | none => false) && okOpt okInt i
       else okOpt okAttr20 cu && okOpt okText r && (cu.isSome || r.isSome))
  | .unsupported _ => false

/-! ### envelope -/

/-- messages.py RequestBatchItem.write l.330-354 (no ephemeral flag, no message extension) -/
def encItem (v : Nat) (it : Kmip.Item) : TItem :=
  .struct T.batchItem ([enm T.operation_ it.payload.op] ++
    optL it.batchId (fun b => byt T.uniqueBatchItemId (asciiBytes b)) ++
    [.struct T.requestPayload (encPayload v it.payload)])

def okItem (v : Nat) (it : Kmip.Item) : Bool := okOpt okText it.batchId && okPayload v it.payload

/-- messages.py RequestHeader.write l.110-144 (no authentication, no batch order option) -/
def encHeader (r : Request) : TItem :=
  .struct T.requestHeader ([encVersion r.version] ++
    optL r.maxResponseSize (fun n => int T.maximumResponseSize (Int.ofNat n)) ++
    optL r.async (boo T.asynchronousIndicator) ++
    optL r.batchOption (enm T.batchErrorContinuationOption) ++
    optL r.timeStamp (dat T.timeStamp) ++
    [int T.batchCount (Int.ofNat r.items.length)])

/-- messages.py RequestMessage.write l.506-520 -/
def encRequest (r : Request) : TItem :=
  .struct T.requestMessage (encHeader r :: r.items.map (encItem r.version))

def supportedVersion (v : Nat) : Bool := v = 10 || v = 11 || v = 12 || v = 13 || v = 14 || v = 20

/-- the request domain: one of the six versions, header fields within their primitives, every item in its domain -/
def okRequest (r : Request) : Bool :=
  supportedVersion r.version && okOpt okLen r.maxResponseSize &&
  okOpt E.batchErrorContinuationOption.contains r.batchOption && okOpt okDate r.timeStamp &&
  okLen r.items.length && r.items.all (okItem r.version)

/-- the bytes of the request frame -/
def requestBytes (r : Request) : Bytes := TTLV.encode (encRequest r)

/-! ### what M14 gives back -/

def normValue (name : String) : AVal → AVal
  | .int n => .int (wireInt name n)
  | v => v

def normAttr1x (a : TAttr) : TAttr := { a with value := normValue a.name a.value }
/-- the KMIP 2.0 forms carry no attribute index -/
def normAttr20 (a : TAttr) : TAttr := ⟨a.name, none, normValue a.name a.value⟩

/-- KMIP 2.0 `Attributes` carry neither template names nor attribute indices -/
def normTemplate (v : Nat) (t : Template) : Template :=
  if v < 20 then ⟨t.templateNames, t.attrs.map normAttr1x⟩ else ⟨0, t.attrs.map normAttr20⟩

/-- the fields `build_secret` does not look at for the object type -/
def normObj (o : RegObj) : RegObj :=
  if o.otype = 1 ∨ o.otype = 8 then { o with alg := none, len := none, format := none }
  else if o.otype = 7 then { o with alg := none, len := none, format := some 2 }
  else { o with subtype := none }

/-- parameters of an encryption key that is not named are not sent -/
def normWrap (w : WrapSpec) : WrapSpec := { w with encKeyHasParams := w.encKeyUid.isSome && w.encKeyHasParams }

def normPayload (v : Nat) : Payload → Payload
  | .create ot t => .create ot (t.map (normTemplate v))
  | .createKeyPair c pr pu => .createKeyPair (c.map (normTemplate v)) (pr.map (normTemplate v)) (pu.map (normTemplate v))
  | .register ot t o => .register ot (t.map (normTemplate v)) (o.map normObj)
  | .deriveKey ot us t dd dl => .deriveKey ot us (t.map (normTemplate v)) dd (if dd then dl else 0)
  | .locate mx off as => .locate mx off (if v < 20 then as.map normAttr1x else as.map normAttr20)
  | .get u f c w => .get u f c (w.map normWrap)
  | .getAttributes u ns => .getAttributes u ns.eraseDups
  | .setAttribute u a => .setAttribute u (normAttr20 a)
  | .modifyAttribute u a cu nw =>
      if v < 20 then .modifyAttribute u (a.map normAttr1x) none none
      else .modifyAttribute u none (cu.map normAttr20) (nw.map normAttr20)
  | .deleteAttribute u n i cu r =>
      if v < 20 then .deleteAttribute u n i none none
      else .deleteAttribute u none none (cu.map normAttr20) r
  | p => p

def normItem (v : Nat) (it : Kmip.Item) : Kmip.Item := ⟨normPayload v it.payload, it.batchId, .internal⟩

/-- the request M14 decodes from `requestBytes r` -/
def norm (r : Request) : Request := { r with items := r.items.map (normItem r.version) }

end Kmip.EncodeRequest
