/-
M3 — schema-directed structure codec: how the read()/write() pairs of /repo sequence the children of a structure.

Every Struct class of /repo writes its fields in a fixed order, each one if it is set (and if the KMIP version
defines it), and reads them back left to right, deciding by PEEKING AT THE NEXT TAG (`Base.is_tag_next`,
primitives.py l.146-155) whether an optional / repeated field is present, and finally checks that nothing is left
(`Base.is_oversized`, l.42-45).  A `Field` is (tag, kind, cardinality one | opt | many, version range,
written?); `encodeFields` is the writer, `decodeFields` the reader.  The value of a structure at this level is
one list of child items per field (`SVal`); children that are structures themselves are kept as items (their own
schema applies to them in turn).

`writes = false` marks a field the reader knows but the writer never emits (no class of the table has one since
/repo 15c47ac repaired ResponseHeader.server_correlation_value; `all_schemas_written` checks that).  Versions are 10, 11, 12, 13, 14, 20.
-/
import KmipModel.TTLV
namespace Kmip.Schema
open Kmip.TTLV

inductive Card where
  | one | opt | many
  deriving DecidableEq, Repr

inductive Kind where
  | prim (ty : Nat)     -- a primitive of that item type
  | struct              -- a nested structure
  | enumOrStruct        -- an Enumeration or a structure (KMIP 2.0 attribute references)
  | any
  deriving DecidableEq, Repr

structure Field where
  tag : Nat
  kind : Kind
  card : Card
  vmin : Nat := 10
  vmax : Nat := 20
  writes : Bool := true
  deriving Repr

structure Schema where
  name : String
  tag : Nat
  fields : List Field
  deriving Repr

abbrev SVal := List (List Item)

def Field.active (f : Field) (v : Nat) : Bool := f.vmin ≤ v && v ≤ f.vmax

def itemTag : Item → Nat
  | .prim t _ => t
  | .struct t _ => t

/-- the reader of the field's class accepts the item's type byte (`Base.read_type`) -/
def kindOk : Kind → Item → Bool
  | .prim ty, .prim _ pv => pv.typeCode == ty
  | .struct, .struct _ _ => true
  | .enumOrStruct, .struct _ _ => true
  | .enumOrStruct, .prim _ pv => pv.typeCode == 5
  | .any, _ => true
  | _, _ => false

def Field.accepts (f : Field) (i : Item) : Bool := itemTag i == f.tag && kindOk f.kind i

def cardOk : Card → List Item → Bool
  | .one, l => l.length == 1
  | .opt, l => l.length ≤ 1
  | .many, _ => true

/-- what may sit in the slot of field `f` of a value that is encodable under version `v` without loss -/
def conformsField (f : Field) (v : Nat) (l : List Item) : Bool :=
  if f.active v && f.writes then cardOk f.card l && l.all f.accepts else l.isEmpty

def conforms : List Field → Nat → SVal → Bool
  | [], _, [] => true
  | f :: fs, v, l :: ls => conformsField f v l && conforms fs v ls
  | _, _, _ => false

/-- the writer: fields in order; a field the version does not define (or the writer forgot) is skipped silently -/
def encodeFields : List Field → Nat → SVal → List Item
  | f :: fs, v, l :: ls => (if f.active v && f.writes then l else []) ++ encodeFields fs v ls
  | _, _, _ => []

/-- `while self.is_tag_next(tag, stream): read one` -/
def takeMany (f : Field) : List Item → Option (List Item × List Item)
  | [] => some ([], [])
  | i :: rest =>
    if itemTag i == f.tag then
      (if kindOk f.kind i then
        match takeMany f rest with
        | some (a, r) => some (i :: a, r)
        | none => none
       else none)
    else some ([], i :: rest)

/-- one field of the reader: mandatory read / `if is_tag_next` / `while is_tag_next` -/
def takeField (f : Field) (items : List Item) : Option (List Item × List Item) :=
  match f.card with
  | .one =>
    (match items with
     | i :: rest => if f.accepts i then some ([i], rest) else none
     | [] => none)
  | .opt =>
    (match items with
     | i :: rest =>
       if itemTag i == f.tag then (if kindOk f.kind i then some ([i], rest) else none) else some ([], i :: rest)
     | [] => some ([], []))
  | .many => takeMany f items

/-- the reader: fields in order, then the trailing-data check -/
def decodeFields : List Field → Nat → List Item → Option SVal
  | [], _, items => if items.isEmpty then some [] else none
  | f :: fs, v, items =>
    if f.active v then
      match takeField f items with
      | none => none
      | some (l, rest) =>
        match decodeFields fs v rest with
        | some ls => some (l :: ls)
        | none => none
    else
      match decodeFields fs v items with
      | some ls => some ([] :: ls)
      | none => none

/-- tags an item at the head of what the remaining fields write can carry: the written fields up to and
including the first mandatory one -/
def firstTags : List Field → Nat → List Nat
  | [], _ => []
  | f :: fs, v =>
    if f.active v && f.writes then (if f.card = .one then [f.tag] else f.tag :: firstTags fs v)
    else firstTags fs v

/-- tag peeking decides correctly: an optional / repeated field's tag is not the tag of anything that can follow
it up to the next mandatory field; a mandatory field is always written -/
def unambiguous : List Field → Nat → Bool
  | [], _ => true
  | f :: fs, v =>
    (if f.active v then (if f.card = .one then f.writes else !(firstTags fs v).contains f.tag) else true)
      && unambiguous fs v

/-- structure level: the item is a structure with the schema's tag whose children decode -/
def decodeS (s : Schema) (v : Nat) : Item → Option SVal
  | .struct t kids => if t = s.tag then decodeFields s.fields v kids else none
  | .prim _ _ => none

def encodeS (s : Schema) (v : Nat) (x : SVal) : Item := .struct s.tag (encodeFields s.fields v x)

end Kmip.Schema
