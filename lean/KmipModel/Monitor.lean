/-
M6 — policy directory monitor + policy-file parser.

Transcribed from the code as it is:
  kmip/services/server/monitor.py
    get_json_files                 (l.25-30)    → `sortFiles`
    initialize_tracking_structures → `MonState.init`
    scan_policies                  (l.78-139)   → `scanE` / `scan`
    disassociate_policy_and_file   → `disassociate`
    restore_or_delete_policy       → `restoreOrDelete`
  kmip/core/policy.py
    parse_policy                   → `parsePolicy`
    read_policy_from_file          → `readPolicy`
  as of /repo 72eead1 (fix 62efd90: a reloaded file is disassociated from every cached
  policy it no longer defines; fix 72eead1: wrongly typed nodes and mixed sections raise
  ValueError).  Line numbers in the comments below: monitor.py as of 62efd90; policy.py as it
  was before 72eead1 (that fix only inserted isinstance checks in front of the loops).

Conventions
  * A Python dict is an insertion-ordered association list (`dget`/`dset`/`dpop`):
    assignment to an existing key keeps its position, a new key goes to the end,
    `pop` removes the key.
  * A policy (the value stored under a name) is an opaque token `PolId`; the
    monitor never looks inside one.
  * A cache stack is a Python list used with `append`/`pop()`; here the list is
    kept REVERSED (head = top of the stack = last Python element).
  * Each cache entry is `(time.time(), file, policy)`.  The time stamp is never
    read; it only makes two entries pushed at different moments unequal, so that
    `c.index(e)` in disassociate_policy_and_file finds `e` itself.  The model
    drops the stamp and removes exactly the entries of the file (assumption:
    two entries of one stack never carry the same `time.time()` value).
  * Iteration over Python *sets* (`set(a) - set(b)`, l.83, 85, 131) has no defined
    order; the model iterates in list order.  The bodies of those loops act on
    one file / one name each and commute, so the order is unobservable
    (the correspondence compares the store as a sorted mapping).
  * An exception escaping `scan_policies` leaves the state as mutated so far;
    `scanE` returns that state together with the exception, `scan` forgets the
    exception (this is what an in-process caller that keeps calling
    `scan_policies()` sees; the real monitor process dies).
No imports: this file is used by the executable driver.
-/
namespace Kmip.Mon

abbrev File := String
abbrev Name := String
abbrev PolId := Nat

/-! ### Python dict as association list -/
section Dict
variable {κ ν : Type} [DecidableEq κ]

/-- `d.get(k)` -/
def dget : List (κ × ν) → κ → Option ν
  | [], _ => none
  | (a, b) :: r, k => if a = k then some b else dget r k

/-- `d[k] = v` -/
def dset : List (κ × ν) → κ → ν → List (κ × ν)
  | [], k, v => [(k, v)]
  | (a, b) :: r, k, v => if a = k then (a, v) :: r else (a, b) :: dset r k v

/-- `d.pop(k, None)` -/
def dpop (d : List (κ × ν)) (k : κ) : List (κ × ν) := d.filter (fun e => decide (e.1 ≠ k))

/-- `d.keys()` -/
def dkeys (d : List (κ × ν)) : List κ := d.map Prod.fst
end Dict

/-! ### sorted() on file names (code-point order, as Python compares `str`) -/
def insertSorted (a : String) : List String → List String
  | [] => [a]
  | b :: r => if a < b then a :: b :: r else b :: insertSorted a r

def sortFiles : List String → List String
  | [] => []
  | a :: r => insertSorted a (sortFiles r)

/-! ### state -/

/-- one entry `(time, file, policy)` of a name's cache stack (time dropped) -/
structure CacheEntry where
  file : File
  pol : PolId
  deriving DecidableEq, Repr, Inhabited

structure MonState where
  /-- `file_timestamps` : file ↦ last seen mtime -/
  timestamps : List (File × Nat)
  /-- `policy_cache` : name ↦ stack of shadowed definitions, head = top -/
  cache : List (Name × List CacheEntry)
  /-- `policy_files` : result of the previous directory listing -/
  files : List File
  /-- `policy_map` : name ↦ file that owns the definition in force -/
  map : List (Name × File)
  /-- `policy_store` : name ↦ policy in force (shared with the engine) -/
  store : List (Name × PolId)
  deriving DecidableEq, Repr, Inhabited

/-- exceptions that can escape `scan_policies` -/
inductive Exn where
  /-- `read_policy_from_file` raised something that is not a ValueError -/
  | parser (cls : String)
  /-- `os.path.getmtime` on a file that is not in the directory -/
  | fileNotFound
  /-- l.120: `self.policy_cache.get(p)` is None (name in the store without a cache stack) -/
  | attributeError
  /-- a state the typed model cannot represent (name in the store without an owner in
      `policy_map`: Python would push an entry whose file is None).  Unreachable,
      see `Kmip.C18.scan_no_internal_failure`. -/
  | modelGap
  deriving DecidableEq, Repr, Inhabited

/-- what `read_policy_from_file(f)` does for one file of the directory -/
inductive Parse where
  /-- returns this dict (insertion order) of name ↦ policy -/
  | ok (defs : List (Name × PolId))
  /-- raises ValueError -/
  | rejected
  /-- raises another exception (class name) -/
  | crash (cls : String)
  deriving DecidableEq, Repr, Inhabited

/-- The `*.json` entries of the policy directory at the time of one scan:
file ↦ (mtime, what reading it does). -/
abbrev DirSnapshot := List (File × Nat × Parse)

/-- `initialize_tracking_structures`: empty tracking structures, every
non-reserved entry popped from the shared store. -/
def MonState.init (R : List Name) (store0 : List (Name × PolId)) : MonState :=
  { timestamps := [], cache := [], files := [], map := [],
    store := store0.filter (fun e => R.contains e.1) }

/-- `disassociate_policy_and_file(policy, file_name)` -/
def disassociate (s : MonState) (p : Name) (f : File) : MonState :=
  match dget s.cache p with
  | none => s                                   -- `.get(policy, [])`: a fresh list, nothing changes
  | some c => { s with cache := dset s.cache p (c.filter (fun e => decide (e.file ≠ f))) }

/-- `restore_or_delete_policy(policy)` -/
def restoreOrDelete (s : MonState) (p : Name) : MonState :=
  match dget s.cache p with
  | some (e :: r) =>                            -- `e = c.pop()`
    { s with cache := dset s.cache p r, store := dset s.store p e.pol, map := dset s.map p e.file }
  | _ =>                                        -- `len(c) == 0` (absent or empty)
    { s with store := dpop s.store p, map := dpop s.map p, cache := dpop s.cache p }

/-- `[k for k, v in self.policy_map.items() if v == f]` -/
def ownedBy (s : MonState) (f : File) : List Name :=
  (s.map.filter (fun kv => decide (kv.2 = f))).map Prod.fst

/-- l.86-91: one iteration of the loop over files that disappeared -/
def removeFile (s : MonState) (f : File) : MonState :=
  let s1 := { s with timestamps := dpop s.timestamps f }
  let s2 := (dkeys s1.cache).foldl (fun s p => disassociate s p f) s1
  (ownedBy s2 f).foldl restoreOrDelete s2

/-- l.106-130: body of `for p in new_p.keys()` -/
def loadBody (R : List Name) (f : File) (s : MonState) (d : Name × PolId) : Except (MonState × Exn) MonState :=
  let p := d.1
  if R.contains p then .ok s                   -- reserved: thrown out
  else
    match dget s.store p with
    | some old =>                               -- `p in sorted(self.policy_store.keys())`
      if dget s.map p = some f then
        .ok { s with store := dset s.store p d.2, map := dset s.map p f }
      else
        match dget s.cache p, dget s.map p with
        | none, _ => .error (s, .attributeError)
        | some _, none => .error (s, .modelGap)
        | some c, some o =>
          .ok { s with cache := dset s.cache p (⟨o, old⟩ :: c), store := dset s.store p d.2, map := dset s.map p f }
    | none =>
      .ok { s with cache := dset s.cache p [], store := dset s.store p d.2, map := dset s.map p f }

/-- l.106-139: a successful `read_policy_from_file` returned `defs` -/
def loadFile (R : List Name) (s : MonState) (f : File) (defs : List (Name × PolId)) : Except (MonState × Exn) MonState := do
  let oldP := ownedBy s f                                           -- l.99 (timestamps are not read below)
  let s1 ← defs.foldlM (loadBody R f) s
  -- l.135-137 (fix 62efd90): `for p in list(self.policy_cache.keys()): if p not in new_p: disassociate(p, f)`
  let stale := (dkeys s1.cache).filter (fun p => !(dkeys defs).contains p)
  let s2 := stale.foldl (fun s p => disassociate s p f) s1
  let gone := oldP.filter (fun p => !(dkeys defs).contains p)       -- `set(old_p) - set(new_p.keys())`
  pure (gone.foldl restoreOrDelete s2)                              -- l.138-139

/-- l.95-133: body of `for f in sorted(self.file_timestamps.keys())` -/
def visit (R : List Name) (snap : DirSnapshot) (s : MonState) (f : File) : Except (MonState × Exn) MonState :=
  match dget snap f, dget s.timestamps f with
  | none, _ => .error (s, .fileNotFound)
  | some _, none => .error (s, .fileNotFound)    -- unreachable: f comes from the keys
  | some (t, parse), some ts =>
    if t > ts then
      let s1 := { s with timestamps := dset s.timestamps f t }
      match parse with
      | .rejected => .ok s1                       -- `except ValueError: … continue`
      | .crash cls => .error (s1, .parser cls)
      | .ok defs => loadFile R s1 f defs
    else .ok s

/-- `scan_policies()` -/
def scanE (R : List Name) (s : MonState) (snap : DirSnapshot) : Except (MonState × Exn) MonState :=
  let policyFiles := sortFiles (dkeys snap)
  -- l.83-84
  let added := policyFiles.filter (fun f => !s.files.contains f)
  let s1 := { s with timestamps := added.foldl (fun ts f => dset ts f 0) s.timestamps }
  -- l.85-91
  let removed := s.files.filter (fun f => !policyFiles.contains f)
  let s2 := removed.foldl removeFile s1
  -- l.92
  let s3 := { s2 with files := policyFiles }
  -- l.94-133
  (sortFiles (dkeys s3.timestamps)).foldlM (visit R snap) s3

def scan (R : List Name) (s : MonState) (snap : DirSnapshot) : MonState :=
  match scanE R s snap with
  | .ok s' => s'
  | .error (s', _) => s'

/-- the monitor after a history of scans (an in-process caller that goes on after an escaped exception) -/
def run (R : List Name) (store0 : List (Name × PolId)) (h : List DirSnapshot) : MonState :=
  h.foldl (scan R) (MonState.init R store0)

/-! ### policy-file parser -/

/-- a JSON value as `json.loads` returns it; objects have unique keys (later duplicates
already resolved by `json.loads`) in document order.  Only zero / non-zero matters of a number. -/
inductive J where
  | null
  | bool (b : Bool)
  | num (n : Int)
  | str (s : String)
  | arr (items : List J)
  | obj (kvs : List (String × J))
  deriving Repr, Inhabited

/-- Python truthiness of a JSON value -/
def J.truthy : J → Bool
  | .null => false
  | .bool b => b
  | .num n => n != 0
  | .str s => s != ""
  | .arr l => !l.isEmpty
  | .obj l => !l.isEmpty

/-- the names the parser looks up: `enums.ObjectType`, `enums.Operation`, `enums.Policy` member names -/
structure NameTables where
  objectTypes : List String
  operations : List String
  permissions : List String
  deriving Repr

/-- `enums.Policy` member names (kmip/core/enums.py, class Policy; its values are strings, so the
generated tables do not carry it; the harness compares this list with the live enum on every run) -/
def permissionNames : List String := ["ALLOW_ALL", "ALLOW_OWNER", "DISALLOW_ALL"]

/-- how `read_policy_from_file` ends when it does not return -/
inductive PErr where
  /-- ValueError -/
  | reject
  /-- AttributeError: a method of dict called on a non-dict node (no longer raised since fix 72eead1;
      kept so that "the parser only raises ValueError" is a theorem, `read_policy_total`, not a typing fact) -/
  | attributeError
  /-- KeyError: `invalid_sections.pop()` on an empty set (no longer raised since fix 72eead1) -/
  | keyError
  deriving DecidableEq, Repr, Inhabited

/-- object type name ↦ (operation name ↦ permission name) -/
abbrev ObjTbl := List (String × List (String × String))

/-- the value stored for one policy name -/
structure PolicyVal where
  preset : Option ObjTbl
  groups : Option (List (String × ObjTbl))
  deriving Repr, Inhabited

/-- l.28-46: the loop over `(operation, permission)` -/
def parseOps (T : NameTables) : List (String × J) → Except PErr (List (String × String))
  | [] => .ok []
  | (op, perm) :: r =>
    if !T.operations.contains op then .error .reject          -- `enums.Operation[operation]`
    else
      match perm with
      | .str s =>
        if !T.permissions.contains s then .error .reject       -- `enums.Policy[permission]`: KeyError
        else (parseOps T r).map (fun rest => (op, s) :: rest)
      | _ => .error .reject                                     -- KeyError / TypeError (unhashable), both caught

/-- l.25-57: the loop over `(object_type, operation_policies)` -/
def parseTypes (T : NameTables) : List (String × J) → Except PErr ObjTbl
  | [] => .ok []
  | (ot, ops) :: r =>
    match ops with
    | .obj okvs =>
      match parseOps T okvs with
      | .error e => .error e
      | .ok tbl =>
        if !T.objectTypes.contains ot then .error .reject      -- `enums.ObjectType[object_type]`, after the inner loop
        else (parseTypes T r).map (fun rest => (ot, tbl) :: rest)
    | _ => .error .reject                                       -- `not isinstance(operation_policies, dict)`: ValueError

/-- `parse_policy(policy)` -/
def parsePolicy (T : NameTables) : J → Except PErr ObjTbl
  | .obj kvs => parseTypes T kvs
  | _ => .error .reject                                         -- `not isinstance(policy, dict)`: ValueError

/-- l.94-97: the loop over `(group_name, group_policy)` -/
def parseGroups (T : NameTables) : List (String × J) → Except PErr (List (String × ObjTbl))
  | [] => .ok []
  | (g, gp) :: r =>
    match parsePolicy T gp with
    | .error e => .error e
    | .ok t => (parseGroups T r).map (fun rest => (g, t) :: rest)

/-- l.87-89: `default_policy = object_policy.get('preset')`, parsed when truthy -/
def parsePresetSection (T : NameTables) (body : List (String × J)) : Except PErr (Option ObjTbl) :=
  match dget body "preset" with
  | some v => if v.truthy then (parsePolicy T v).map some else .ok none
  | none => .ok none

/-- l.91-98: `group_policies = object_policy.get('groups')`, parsed when truthy -/
def parseGroupsSection (T : NameTables) (body : List (String × J)) : Except PErr (Option (List (String × ObjTbl))) :=
  match dget body "groups" with
  | some v =>
    if v.truthy then
      match v with
      | .obj gkvs => (parseGroups T gkvs).map some
      | _ => .error .reject                                     -- `not isinstance(group_policies, dict)`: ValueError
    else .ok none
  | none => .ok none

/-- l.85-100: a body whose keys are all in {'groups', 'preset'} -/
def parseSectioned (T : NameTables) (body : List (String × J)) : Except PErr PolicyVal :=
  match parsePresetSection T body with
  | .error e => .error e
  | .ok preset =>
    match parseGroupsSection T body with
    | .error e => .error e
    | .ok groups => .ok ⟨preset, groups⟩

/-- l.78-109: one `(name, object_policy)` of the document; `none` = skipped (`continue`) -/
def parseEntry (T : NameTables) (body : J) : Except PErr (Option PolicyVal) :=
  match body with
  | .obj kvs =>
    if kvs.isEmpty then .ok none
    else
      let sections := dkeys kvs
      if sections.all (fun k => ["groups", "preset"].contains k) then
        (parseSectioned T kvs).map some
      else if sections.all (fun k => T.objectTypes.contains k) then
        (parseTypes T kvs).map (fun t => some ⟨some t, none⟩)
      else
        let invalid := sections.filter (fun k => !["groups", "preset"].contains k && !T.objectTypes.contains k)
        if invalid.isEmpty then .error .reject                  -- "mixes policy sections with object types"
        else .error .reject                                     -- "contains an invalid section"
  | _ => .error .reject                                         -- `not isinstance(object_policy, dict)`: ValueError

/-- l.78-111: the loop over `policy_blob.items()` -/
def parseEntries (T : NameTables) : List (String × J) → Except PErr (List (String × PolicyVal))
  | [] => .ok []
  | (name, body) :: r =>
    match parseEntry T body with
    | .error e => .error e
    | .ok none => parseEntries T r
    | .ok (some v) => (parseEntries T r).map (fun rest => (name, v) :: rest)

/-- `read_policy_from_file(path)`; `none` = `json.loads` raised (any exception there becomes ValueError) -/
def readPolicy (T : NameTables) : Option J → Except PErr (List (String × PolicyVal))
  | none => .error .reject
  | some (.obj kvs) => parseEntries T kvs
  | some _ => .error .reject                                    -- `not isinstance(policy_blob, dict)`: ValueError

end Kmip.Mon
