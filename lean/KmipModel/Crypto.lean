/-
M9 — cryptographic plumbing of kmip/services/server/crypto/engine.py:
padding rules over bytes, and the *plan* (which primitive, mode, IV, padding, tag
length) that `_encrypt_symmetric` (l.389-524) and `_decrypt_symmetric` (l.745-871)
derive from the request parameters and the look-up tables.  The primitives
themselves (OpenSSL through `cryptography`) are abstract.
-/
namespace Kmip.Crypto

abbrev Bytes := List Nat

/-! ### symmetric padding (`cryptography.hazmat.primitives.padding`) -/

/-- PKCS#7: append `n` bytes of value `n`, `1 ≤ n ≤ block` -/
def pkcs7Pad (block : Nat) (d : Bytes) : Bytes :=
  let n := block - d.length % block
  d ++ List.replicate n n

def pkcs7Unpad (block : Nat) (d : Bytes) : Option Bytes :=
  match d.getLast? with
  | none => none
  | some n =>
    if d.length % block != 0 || n == 0 || n > block || n > d.length then none
    else if (d.drop (d.length - n)).all (· == n) then some (d.take (d.length - n)) else none

/-- ANSI X9.23: zero bytes, then the count -/
def x923Pad (block : Nat) (d : Bytes) : Bytes :=
  let n := block - d.length % block
  d ++ List.replicate (n - 1) 0 ++ [n]

def x923Unpad (block : Nat) (d : Bytes) : Option Bytes :=
  match d.getLast? with
  | none => none
  | some n =>
    if d.length % block != 0 || n == 0 || n > block || n > d.length then none
    else if ((d.drop (d.length - n)).take (n - 1)).all (· == 0) then some (d.take (d.length - n)) else none

/-! ### the plan -/

/-- look-up tables of the engine (regenerated from /repo: `Gen.crypto…`) -/
structure Tables where
  symAlgs : List (Nat × String × Nat)      -- algorithm ↦ (class, block size in bits)
  modes : List (Nat × String × Bool)       -- mode ↦ (class, takes IV/nonce)
  symPadding : List (Nat × String)

structure SymParams where
  alg : Nat
  mode : Option Nat
  padding : Option Nat
  /-- length in bytes of the IV/nonce supplied by the client, if any -/
  iv : Option Nat
  aad : Bool
  tagLen : Option Nat
  deriving Repr, DecidableEq

/-- KMIP errors of the plan stage (all Invalid Field) -/
inductive PlanErr where
  | unsupportedAlgorithm | aadOutsideGcm | tagLengthMissing | modeMissing | unsupportedMode
  | paddingMissing | unsupportedPadding | ivMissing | tagMissing
  deriving Repr, DecidableEq

structure Plan where
  alg : Nat
  blockBits : Nat
  mode : Option Nat
  /-- IV length in bytes handed to the mode (client's, or a generated block-sized one) -/
  iv : Option Nat
  ivGenerated : Bool
  padding : Option Nat
  gcm : Bool
  tagLen : Option Nat
  deriving Repr, DecidableEq

def rc4 : Nat := 22
def cbc : Nat := 1
def ecb : Nat := 2
def gcm : Nat := 9

/-- `_handle_symmetric_padding`: which padding class is applied (CBC / ECB only) -/
def padPlan (T : Tables) (mode : Option Nat) (padding : Option Nat) : Except PlanErr (Option Nat) :=
  if mode == some cbc || mode == some ecb then
    match padding with
    | none => .error .paddingMissing
    | some p => if (T.symPadding.lookup p).isSome then .ok (some p) else .error .unsupportedPadding
  else .ok none

/-- the IV handed to the mode: the client's, or a generated one of block size -/
def planIv (usesIv : Bool) (iv : Option Nat) (blockBits : Nat) : Option Nat :=
  if usesIv then (match iv with | some n => some n | none => some (blockBits / 8)) else none

def decIv (usesIv : Bool) (iv : Option Nat) : Option Nat := if usesIv then iv else none

def encPlan (T : Tables) (p : SymParams) : Except PlanErr Plan :=
  match T.symAlgs.lookup p.alg with
  | none => .error .unsupportedAlgorithm
  | some (_, blockBits) =>
    if p.alg == rc4 then
      -- a stream cipher: a mode named in the parameters is dropped up front (no padding, never GCM)
      if p.aad then .error .aadOutsideGcm
      else .ok ⟨p.alg, blockBits, none, none, false, none, false, p.tagLen⟩
    else if !(p.mode == some gcm) && p.aad then .error .aadOutsideGcm
    else if p.mode == some gcm && p.tagLen.isNone then .error .tagLengthMissing
    else
      match p.mode with
      | none => .error .modeMissing
      | some m =>
        match T.modes.lookup m with
        | none => .error .unsupportedMode
        | some (_, usesIv) =>
          match padPlan T p.mode p.padding with
          | .error e => .error e
          | .ok pad => .ok ⟨p.alg, blockBits, some m, planIv usesIv p.iv blockBits, usesIv && p.iv.isNone, pad,
                            p.mode == some gcm, p.tagLen⟩

def decPlan (T : Tables) (p : SymParams) (tag : Option Nat) : Except PlanErr Plan :=
  match T.symAlgs.lookup p.alg with
  | none => .error .unsupportedAlgorithm
  | some (_, blockBits) =>
    if p.alg == rc4 then
      if p.aad then .error .aadOutsideGcm
      else .ok ⟨p.alg, blockBits, none, none, false, none, false, tag⟩
    else if p.aad && !(p.mode == some gcm) then .error .aadOutsideGcm
    else if p.mode == some gcm && tag.isNone then .error .tagMissing
    else
      match p.mode with
      | none => .error .modeMissing
      | some m =>
        match T.modes.lookup m with
        | none => .error .unsupportedMode
        | some (_, usesIv) =>
          if usesIv && p.iv.isNone then .error .ivMissing else
          match padPlan T p.mode p.padding with
          | .error e => .error e
          | .ok pad => .ok ⟨p.alg, blockBits, some m, decIv usesIv p.iv, false, pad, p.mode == some gcm, tag⟩

/-! ### abstract primitives and the composed operations -/

/-- the backend: a cipher per (algorithm, mode, key, iv); `dec_enc` is the algebraic law
the primitives are assumed to satisfy (OpenSSL is trusted, not modelled) -/
structure Prims where
  enc : Nat → Option Nat → Bytes → Bytes → Bytes → Bytes        -- alg mode key iv plaintext
  dec : Nat → Option Nat → Bytes → Bytes → Bytes → Bytes
  dec_enc : ∀ a m k iv x, dec a m k iv (enc a m k iv x) = x

def applyPad (blockBits : Nat) (pad : Option Nat) (d : Bytes) : Bytes :=
  match pad with
  | some 3 => pkcs7Pad (blockBits / 8) d       -- PaddingMethod.PKCS5
  | some 6 => x923Pad (blockBits / 8) d        -- PaddingMethod.ANSI_X923
  | _ => d

def removePad (blockBits : Nat) (pad : Option Nat) (d : Bytes) : Option Bytes :=
  match pad with
  | some 3 => pkcs7Unpad (blockBits / 8) d
  | some 6 => x923Unpad (blockBits / 8) d
  | _ => some d

def encryptWith (P : Prims) (pl : Plan) (key iv msg : Bytes) : Bytes :=
  P.enc pl.alg pl.mode key iv (applyPad pl.blockBits pl.padding msg)

def decryptWith (P : Prims) (pl : Plan) (key iv ct : Bytes) : Option Bytes :=
  removePad pl.blockBits pl.padding (P.dec pl.alg pl.mode key iv ct)

end Kmip.Crypto
