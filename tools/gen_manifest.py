#!/usr/bin/env python3
"""Writes /verif/MANIFEST.json from the table below (kept in one place so the file stays consistent)."""
import json, os
HERE = os.path.dirname(os.path.dirname(os.path.abspath(__file__)))

TRUST = ("Trusted: Lean 4.33 kernel (axioms propext, Classical.choice, Quot.sound only; audited on every run by "
         "#print axioms; no sorry/native_decide/bv_decide/own axioms), the translator harness/gen_tables.py, and the "
         "correspondence harness (generators, observation functions, monitors). The Lean model is hand-written from "
         "the code; it is tied to /repo only as far as the correspondence run recorded in the evidence exercises it. ")

CHECKS = {
 "C03": dict(
   technique="Lean 4 theorems (decision logic iff-characterisation; success-requires-grant over all handlers; history invariant) + exhaustive decision-table and history correspondence",
   text="Proved in Lean for the engine model: allowedByPolicy <-> Grant (the property's sentence as a Prop), default deny, owner-only, most-permissive-group; every successful object-addressing operation (incl. wrapping key and DeriveKey base objects) implies the grant; denial text equals the not-found text; Locate lists only granted objects; owner = creator and immutable over all histories. Tied to /repo by the complete 4.4k-cell decision table run on the real _is_allowed_by_operation_policy, and by seeded multi-identity histories compared step by step (responses + full store dump) with the model; an independent reading of the property text is the monitor that decides violations.",
   note=TRUST + "Modelled, not verified: SQLAlchemy/SQLite storage. Not explored: identities with an empty-string group name; non-canonical numeric identifier strings ('01', '1.0').",
   ref="§5 C03"),
 "C04": dict(
   technique="Lean 4 invariant by induction over histories (Evolves/Persist) + per-operation guard theorems; exhaustive small-scope and random correspondence",
   text="Proved: over every history of requests and restarts the state rank of every surviving object never decreases and stays in {PreActive, Active, Deactivated, Compromised}; the only transitions are PA->A (Activate), A->D (Revoke), *->C (Revoke key compromise); only Activate/Revoke change state; Encrypt/Decrypt/Sign/SignatureVerify/MAC/wrapping-key success implies Active + kind + mask bit for any backend answer; DeriveKey needs the Derive Key bit; Destroy refused when Active. Tied to /repo by all lifecycle sequences to depth 3 (quick) / 4 (thorough) over a 34-letter alphabet and by random depth-40 histories, each compared with the model incl. store dumps; monitors check monotonicity and guards on the implementation alone.",
   note=TRUST + "The cryptography backend is replaced by a scripted stand-in (the guards are proved for every backend answer).",
   ref="§5 C04"),
 "C05": dict(
   technique="Lean 4 round-trip theorem for the key-wrapping-data dictionary <-> columns conversion + Register/Get fidelity and persistence theorems on the engine model; end-to-end correspondence through the real client library, wire encoding, engine and SQLite with engine restarts",
   text="Proved: a Normal key wrapping data dictionary survives flattening into the 32 columns and the any()-based reconstruction exactly (wrapping_roundtrip), absent stays absent, and the all-falsy parameter sets are characterised as the ones that are dropped (witness); Register stores exactly the registered type, value bytes, key format, type-specific field, and algorithm/length for keys whatever the template says; Get returns exactly the stored fields (SecretData always reported with key format Opaque - witness); over any later history and restarts value, type, algorithm, length, format and type-specific field of a stored object never change; server-assigned attributes (owner, initial date, default policy name, Pre-Active). Tied to /repo end to end: every one of the seven object types (19 value/format kinds incl. wrapped keys and multi-name objects) is registered through the real ProxyKmipClient, encoded, decoded by the server-side decoder, processed by the real engine with real cryptography and SQLite, the engine re-created on the same file for two thirds of the cases, and read back with Get / GetAttributes / GetAttributeList under each of the six versions; field-wise equality and exact attribute sets are the monitor. The wire hop relies on C01.",
   note=TRUST + "Partial: pie-level objects only express what the pie API can express (e.g. SecretData has no key format parameter); the SQLAlchemy/SQLite round trip is exercised, not modelled.",
   ref="§5 C05"),
 "C06": dict(
   technique="Lean 4: padding laws by arithmetic/list induction, plan (parameter plumbing) theorems, composition with an abstract invertible cipher, decide over regenerated look-up tables; implementation compared with independent references",
   text="PARTIAL (primitives are OpenSSL's). Proved: PKCS#7 and ANSI X9.23 unpad(pad d) = d and padded length is a multiple of the block for every block size and message; for every parameter tuple Encrypt accepts: padding is applied exactly for block ciphers in CBC/ECB, an IV/nonce is generated exactly when the mode takes one and the client sent none (block-sized), Decrypt with the same parameters and that IV selects the same primitive/mode/IV/padding/GCM flag, and Decrypt(Encrypt m) = m under the hypothesis that the backend cipher is invertible; the regenerated tables map every digital-signature / hashing / HMAC algorithm to the hash its name says, block sizes are positive, exactly ECB takes no IV, PKCS5 -> PKCS7 and ANSI_X923 -> ANSIX923. Tied to /repo: the whole (algorithm, mode, padding, IV, AAD, tag length) grid is run on the real CryptographyEngine and on the plan model (acceptance, IV generation, padding, alignment), padding bytes compared byte for byte; monitors on the real engine: Decrypt o Encrypt = id, GCM rejects modified ciphertext/tag/AAD, ciphertext equals an independent use of the cipher, Sign/SignatureVerify with RSA pairs from create_asymmetric_key_pair incl. an independent verifier, HMAC/CMAC/PBKDF2/HKDF/SP800-108-counter/RFC3394 against references written from hashlib/hmac and the RFCs, key/IV lengths and non-repetition.",
   note=TRUST + "Not modelled: correctness of OpenSSL primitives, unpredictability of os.urandom (freshness is only checked as non-repetition).",
   ref="§5 C06"),
 "C07": dict(
   technique="Lean 4 store invariant (strictly increasing identifiers below the sequence) proved for every effect and lifted over histories with restarts",
   text="Proved: identifiers of stored objects are pairwise distinct in every reachable state; objects appearing later carry either an identifier already present or one >= the old sequence value (never reused); an issued identifier that is no longer stored never reappears, across any history and restarts; operations on it answer Item Not Found with the standard text; Locate returns only live, permitted identifiers. Tied to /repo by histories biased to destroy-newest-then-create / restart-then-create with the engine re-created on the same SQLite file.",
   note=TRUST + "Partial: Store.nextUid stands for SQLite's AUTOINCREMENT sequence; its persistence is trusted runtime behaviour exercised only by the correspondence (clean restarts; kill-restarts are covered by C09).",
   ref="§5 C07"),
 "C08": dict(
   technique="Lean 4 refinement of the batch accumulator loop to a declarative fold + corollaries; batch correspondence",
   text="Proved: processBatch = batchSpec (fold); results correspond in order to a prefix of the items echoing operation and ID; Stop ends at the first failure, Continue reports every item; a failing item leaves engine and store untouched; a batch whose items all fail changes nothing; a request rejected as a whole (incl. missing batch item ID, after the repair) executed nothing; otherwise the reported results are exactly those of the executed fold. Tied to /repo by generated batches of 1..6 mixed items with/without IDs under Stop/Continue/Undo compared with the model incl. store dumps.",
   note=TRUST + "SQLAlchemy session semantics (dirty objects carried between batch items) are not modelled: the model has no pending state, so a handler that mutates before failing shows up as a correspondence divergence, not as a theorem failure.",
   ref="§5 C08"),
 "C09": dict(
   technique="Lean 4 theorems over a transaction/crash model (all-or-nothing, acknowledged => durable, no half key pair, reopen invariant) + fault enumeration: process kills at every SQL statement and commit boundary with the file reopened",
   text="PARTIAL (SQLite's atomic commit is the hypothesis). Proved: for an operation whose trace is writes, one COMMIT, response - whatever the crash index, the recovered store is the store before or the store with the operation wholly applied; before the COMMIT nothing is visible however many statements ran; if the response had been produced the operation is in effect after restart; CreateKeyPair's two inserts are in one transaction (both or neither); every recovered store satisfies the identifier invariant under which listing is defined. Tied to /repo by (i) recording the real statement/commit/response trace of 17 state-changing operation cases (Create, CreateKeyPair, Register x3, DeriveKey, Activate, Revoke x2, Destroy x2, Set/Modify/DeleteAttribute in both forms) and checking it has the assumed shape, and (ii) killing a child server process with os._exit immediately before every write statement, before and after the DBAPI COMMIT and after the response, reopening the surviving SQLite file with a fresh engine and comparing the complete object dump with the before/after stores (plus raw-table consistency and Locate/GetAttributes of everything).",
   note=TRUST + "Not modelled: power loss / fsync / filesystem behaviour; SQLAlchemy's unit of work (observed through its statement trace).",
   ref="§5 C09"),
 "C10": dict(
   technique="Lean 4 serializability theorem for the lock model (invariant over schedules) + decide over the regenerated table of engine entry points; threaded correspondence on one real engine against the serial model execution in recorded lock order",
   text="PARTIAL (CPython scheduling and SQLite/SQLAlchemy thread-safety are not modelled). Proved: for every schedule the lock semantics permit - any interleaving of any number of sessions - the shared state equals that of the serial execution in lock-acquisition order, which takes each session's requests in its own order (locked_serializable, by an invariant that only the lock holder is inside a request); a microstep reading what its own request wrote sees that value; on the table regenerated from /repo every engine entry point called from session/server code that transitively writes a shared field (_client_identity, _protocol_version, _attribute_policy, _data_session, _id_placeholder, is_asynchronous) is @_synchronize'd, and process_request is such an entry. Tied to /repo by running 2-4 real session threads with different identities and protocol versions against ONE real KmipEngine with forced and injected context switches (lock, access-control choke point, version switch), recording the lock order, and requiring every response, the echoed version and the final store to equal the Lean engine model's serial execution of that order (all merges are tried when no lock order is observable).",
   note=TRUST,
   ref="§5 C10"),
 "C11": dict(
   technique="Lean 4 non-interference theorem (response and store are functions of request, identity, context and persistent store) + live-vs-fresh-engine differential",
   text="Proved: processRequest on any engine equals processRequest on the restarted engine (same store, all transient fields reset), for responses and resulting store; corollary over all histories. Tied to /repo by sending every probe both to the live engine and to a fresh KmipEngine opened on a copy of the database taken just before (implementation-vs-implementation monitor), probes biased to identifier-less requests for the 14 placeholder-reading handlers and to version/identity switches.",
   note=TRUST,
   ref="§5 C11"),
 "C13": dict(
   technique="Lean 4: compositional NoInternal calculus over the engine model (never ends in a non-KMIP exception) for lifecycle, read, cryptographic, MAC and wrapping operations + decide over the regenerated rule table; complete operation x type x state x version x parameter grid with the real cryptography backend as recorded oracle",
   text="Proved (model of the repaired tree): Activate, Revoke, Destroy, Get (plain and with key wrapping), GetAttributes, GetAttributeList, Encrypt, Decrypt, Sign, SignatureVerify, MAC, Query, DiscoverVersions and every undispatched operation never end in the internal-error outcome, for every store, identity, version and parameter value, provided the cryptography backend answers with a result or a KMIP error; the rule-table facts used (value shape vs multivalued flag) are decided on the regenerated table. Partial: object creation with template attributes, attribute operations and Locate filters are covered by the grid correspondence and the implementation monitor only (theorem planned). Tied to /repo by the grid operation x 8 object kinds x 4 states x 6 versions x parameter menu (every attribute name of the table, unknown and x- names, algorithm/mode/padding/hash/derivation menus, odd IV/tag/data lengths) run on the real engine with the REAL cryptography backend whose answers are recorded and given to the model as oracle; the monitor is 'result reason != General Failure'. 11 genuine defects found this way were repaired in /repo (known_findings.json).",
   note=TRUST + "Ill-formed requests (Query without function, DeriveKey without base object) are outside the property. Modelled, not verified: the cryptography library (its answers are an oracle).",
   ref="§5 C13"),
 "C14": dict(
   technique="Lean 4 refinement of the Locate filter loop to slice . stable-sort-desc . filter(matches) . filter(permitted) + sortedness, permutation, page-partition theorems; correspondence against an independent predicate",
   text="Proved: whenever Locate answers, the identifier list equals slice(offset,max) of the stable newest-first sort of the permitted objects that pass the per-object filter conjunction (locate_spec); the sort is sorted, a permutation and stable; consecutive pages concatenate to the bigger page (partition); objects to whose type a filter attribute is not applicable never match; date filters: one = exact, two = inclusive range in either order, three = Invalid Field. Tied to /repo by random stores x filter conjunctions over the attributes the property lists x offset/maximum x requesters, with the expected list recomputed from the store dump by an independent Python predicate (monitor) and by the model.",
   note=TRUST + "Domain guards: offset/maximum >= 0; initial date != 0. Ties in initial date keep identifier order.",
   ref="§5 C14"),
 "C15": dict(
   technique="Lean 4: decide over the regenerated attribute rule table + handler-level frame theorems + exactness lemmas; attribute-operation correspondence with full store dumps",
   text="Proved: the regenerated rule table marks algorithm, length, usage mask and policy name as not client-modifiable (decide +kernel, re-checked against /repo each run); under that table no history changes identifier, type, owner, policy name, mask, algorithm, length or initial date of any object and the state only moves forward; a successful Set/Modify/Delete replaces the addressed object by a copy differing at most in names, groups, application info and sensitive flag; ModifyAttribute by index changes exactly that instance; DeleteAttribute by index removes exactly it and refuses negative indices; other objects untouched; failure changes nothing. Tied to /repo by sequences of both request forms over all table names and index classes with the full store compared after every request.",
   note=TRUST,
   ref="§5 C15"),
 "C16": dict(
   technique="Lean 4: decide +kernel over tables regenerated from /repo (decorator minimum versions, dispatch set, Query answers, DiscoverVersions, attribute added/deprecated versions) + gating theorems on the engine model; complete operation x version and attribute x version matrices",
   text="Proved: the model's per-operation minimum versions and dispatch set equal the live engine's (probed through the decorator on every run); every operation Query advertises under a version is available under it; DiscoverVersions lists exactly the supported versions, newest first; an unsupported version is refused with nothing executed; an operation below its minimum version or undispatched is refused; whatever GetAttributes/GetAttributeList report under a version is supported and not deprecated at that version by the rule table; unsupported attributes are refused in templates; Sensitive is gated to >= 1.4 and Operation Policy Name disappears in 2.0 on the real table. Tied to /repo by the complete operation x version matrix (6 supported + 4 unsupported versions), Query/DiscoverVersions under every version, GetAttributeList/GetAttributes of fully attributed objects of 7 types under every version, checked against a version table taken from the KMIP specification (monitor) and against the model. Version echo in the response header is checked by the monitor here and proved for the session model in C12; version-conditional message fields belong to C01.",
   note=TRUST,
   ref="§5 C16"),
 "C19": dict(
   technique="Lean 4 decision-logic theorems over a model of the client's result handling (24 operations) and chunk-independence of its length-prefixed receive loop; correspondence of the real ProxyKmipClient/KMIPProxy/KMIPProtocol over a scripted in-process transport and against a real engine",
   text="Proved (model of the repaired client): for every ProxyKmipClient operation a Success response with payload returns exactly the payload data and a failure raises the operation-failure error with exactly (status, reason, message-or-None) (client_result_exact, failure_with/without_message_exact); for all 24 operations and every item with status != Success the client never returns data (never_success_on_failure), also on the generic send_request_payload path incl. a mismatched echoed operation; KMIPProxy result objects carry exactly the response's fields; the receive loop delivers each frame intact for every chunking (client_frames_chunk_independent, by conservation lemmas) and raises on a truncated stream; an undecodable response raises. Tied to /repo by the matrix 24 operations x 6 versions x 8 response classes x argument values over a scripted fake socket under the REAL KMIPProtocol: every emitted request is decoded by the server-side decoder and compared field by field with the arguments, responses are generated legal messages delivered under generated chunkings/truncations, plus conversations against a real in-process KmipEngine; monitors: returned data == response data, failure triple exact, never data on failure, decodability. Six genuine client defects found this way were repaired in /repo.",
   note=TRUST + "The response decoder is a parameter of the model (C01). Assumes ASCII text; unsuccessful responses carry a Result Reason.",
   ref="§5 C19"),
 "C20": dict(
   technique="Lean 4: decide +kernel over the table of all logger call sites regenerated from /repo (level + provenance class of every formatted argument) + log non-interference theorem; dynamic canary runs",
   text="PARTIAL (third-party exception text and result messages are covered dynamically only). Proved: on the regenerated table of all 164 logger call sites of the package (115 at INFO or above) no site at INFO+ formats a value whose provenance is key material, an object repr, a message encoding, a credential or anything the conservative classifier does not recognise; the sites that do format encodings are all DEBUG; hence two executions that fire the same sites and differ only in secret values emit identical records at INFO and above (log_noninterference). Tied to /repo by canary runs: seeded engine histories over all operations and failure paths plus end-to-end client/server round trips (incl. failing decrypts and undecodable bytes) in which every key value, secret, token, plaintext and password is a high-entropy canary; every record >= INFO on every logger (with exception text) and every result/error message is searched for each canary in raw, hex, base64 and repr form, and every fired record must come from a site of the table.",
   note=TRUST + "The classifier in gen_tables.py (syntactic provenance classes) is part of the trusted base; it is conservative (unknown = secret).",
   ref="§5 C20"),
}

def main():
    checks = []
    for pid in sorted(CHECKS):
        c = CHECKS[pid]
        checks.append({
            "property_id": pid,
            "quick_cmd": "./check %s --tier quick" % pid,
            "thorough_cmd": "./check %s --tier thorough" % pid,
            "evidence_file": "evidence/%s.json" % pid,
            "replay_cmd_template": "./check %s --replay {path}" % pid,
            "engine": "lean-model+correspondence",
            "level_claimed": {"category": "proof", "text": c["text"], "design_ref": c["ref"]},
            "level_note": c["note"],
            "technique": c["technique"],
        })
    props = [json.loads(l)["id"] for l in open(os.path.join(HERE, "properties.jsonl"))]
    na_reasons = json.load(open(os.path.join(HERE, "tools", "not_yet.json")))
    na = [{"property_id": p, "reason": na_reasons.get(p, "check not built yet in this round; planned (DESIGN.md §5)")}
          for p in props if p not in CHECKS]
    m = {
        "version": 1,
        "setup_cmd": "./setup.sh",
        "hooks": {"guard": "PYKMIP_VERIF", "enable": "no source hooks: instrumentation is monkeypatched from the harness process (PYKMIP_VERIF=1 is exported by ./check but read by nothing in /repo)",
                  "baseline_off_cmd": "/venv/bin/python tools/baseline.py", "source_commits": [], "add_only": True},
        "engines": [
            {"name": "lean-model+correspondence", "path": "lean/ + harness/",
             "serves_properties": sorted(CHECKS),
             "kind_free_text": "Lean 4 library KmipModel (models, lemmas, property theorems), line-protocol drivers run with `lake env lean --run`, Python correspondence harness driving the real code in-process"}],
        "checks": checks,
        "not_applicable": na,
        "notes": "Repairs of genuine defects in /repo are separate 'fix:' commits listed in known_findings.json (status fixed).",
    }
    json.dump(m, open(os.path.join(HERE, "MANIFEST.json"), "w"), indent=1)
    print("MANIFEST.json: %d checks, %d not claimed" % (len(checks), len(na)))

if __name__ == "__main__":
    main()
