#!/bin/sh
# usage: tools/try_mutant_wt.sh <patch.diff> <Cxx> [Cyy ...]
# like try_mutant.sh but leaves /repo alone: the patch is applied in a scratch worktree of /repo and the
# checks run with VERIF_REPO pointing at it (used while other work is going on in /repo or /verif).
P="$(realpath "$1")"; shift
W=/tmp/trywt-$$
git -C /repo worktree add -q --detach "$W" HEAD || exit 2
git -C "$W" apply "$P" || { echo "patch does not apply"; git -C /repo worktree remove --force "$W"; exit 2; }
for c in "$@"; do
  echo "=== $c"
  (cd /verif && VERIF_REPO="$W" ./check "$c" --tier quick 2>&1 | grep -E "VIOLATION|detail|KNOWN|tier=|HARNESS|Error" | head -12)
done
git -C /repo worktree remove --force "$W"
(cd /verif && /venv/bin/python harness/gen_tables.py /repo > /dev/null 2>&1)   # leave the generated tables as /repo says
