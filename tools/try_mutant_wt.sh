#!/bin/sh
# usage: tools/try_mutant_wt.sh <patch.diff> <Cxx> [Cyy ...]
# Fully isolated trial of a change: the patch is applied in a scratch worktree of /repo (HEAD) and the quick checks
# run from a scratch COPY of /verif (incl. its lake build output) with VERIF_REPO pointing at the worktree, so
# neither /repo nor /verif (generated tables, evidence, replays) is touched and several trials can run in parallel.
P="$(realpath "$1")"; shift
W=/tmp/trywt-$$; V=/tmp/tryvf-$$
git -C /repo worktree add -q --detach "$W" HEAD || exit 2
git -C "$W" apply "$P" || { echo "patch does not apply"; git -C /repo worktree remove --force "$W"; exit 2; }
mkdir -p "$V" && rsync -a --exclude evidence --exclude replays --exclude .git --exclude '__pycache__' /verif/ "$V"/
for c in "$@"; do
  echo "=== $c"
  (cd "$V" && VERIF_REPO="$W" ./check "$c" --tier quick 2>&1 | grep -E "VIOLATION|detail|KNOWN|tier=|HARNESS|Error" | head -12)
done
git -C /repo worktree remove --force "$W"; rm -rf "$V"
