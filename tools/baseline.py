#!/venv/bin/python
"""Run the repository's pinned test suite (guard OFF) and compare with /root/.vp/BASELINE.json.
Exit 0 iff every stable_pass test passes."""
import json, os, subprocess, sys, tempfile, xml.etree.ElementTree as ET
base = json.load(open("/root/.vp/BASELINE.json"))
stable = set(base["stable_pass"])
with tempfile.TemporaryDirectory() as td:
    out = os.path.join(td, "r.xml")
    env = dict(os.environ); env.pop("PYKMIP_VERIF", None)
    cmd = base["cmd"].replace("<file>", out)
    p = subprocess.run(cmd, shell=True, env=env, stdout=subprocess.PIPE, stderr=subprocess.STDOUT, text=True)
    passed = set()
    for tc in ET.parse(out).getroot().iter("testcase"):
        if not list(tc):
            passed.add("%s::%s" % (tc.get("classname"), tc.get("name")))
missing = sorted(stable - passed)
print("stable_pass=%d passed_now=%d missing=%d" % (len(stable), len(passed & stable), len(missing)))
for m in missing[:40]:
    print("  NOT PASSING:", m)
sys.exit(1 if missing else 0)
