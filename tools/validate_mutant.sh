#!/bin/sh
# usage: tools/validate_mutant.sh <dir-with-patch.diff-and-demo.py>  -- independent confirmation in a scratch worktree
D="$1"; W=/tmp/val-$$
git -C /repo worktree add -q --detach "$W" HEAD || exit 2
cd "$W"
mkdir -p MUTANT && cp "$D"/demo.py MUTANT/
echo "--- demo WITHOUT change:"; /venv/bin/python MUTANT/demo.py >/tmp/val-$$.out 2>&1; echo "exit=$?"
git apply "$D"/patch.diff || { echo "patch does not apply"; cd /; git -C /repo worktree remove --force "$W"; exit 2; }
echo "--- demo WITH change:"; /venv/bin/python MUTANT/demo.py >/tmp/val-$$.out2 2>&1; echo "exit=$?"; tail -3 /tmp/val-$$.out2
echo "--- unit tests WITH change:"; /venv/bin/python -m pytest -q -p no:cacheprovider kmip/tests/unit 2>&1 | tail -4
cd /; git -C /repo worktree remove --force "$W"; rm -f /tmp/val-$$.out /tmp/val-$$.out2
