#!/bin/sh
# usage: tools/intake_mutant.sh <scratch-worktree> <seeded-id> <Cxx> [Cyy ...]
# copies MUTANT/{patch.diff,demo.py,README.md} to seeded/<id>/, confirms the change independently
# (validate_mutant.sh) and runs the quick checks of the named properties against it (try_mutant_wt.sh).
W="$1"; ID="$2"; shift 2
D=/verif/seeded/$ID
mkdir -p "$D" && cp "$W"/MUTANT/patch.diff "$W"/MUTANT/demo.py "$W"/MUTANT/README.md "$D"/ || exit 2
echo "##### $ID validate"; /verif/tools/validate_mutant.sh "$D" 2>&1 | grep -E "^exit=|^--- |passed|failed" 
echo "##### $ID checks: $*"; /verif/tools/try_mutant_wt.sh "$D/patch.diff" "$@" 2>&1
