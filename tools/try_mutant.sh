#!/bin/sh
# usage: tools/try_mutant.sh <patch.diff> <Cxx> [Cyy ...]   -- apply to /repo, run quick checks, restore
P="$(realpath "$1")"; shift
cd /repo || exit 2
if ! git diff --quiet; then echo "/repo is dirty"; exit 2; fi
git apply "$P" || { echo "patch does not apply"; exit 2; }
for c in "$@"; do
  echo "=== $c"
  (cd /verif && ./check "$c" --tier quick 2>&1 | grep -E "VIOLATION|detail|KNOWN|tier=|HARNESS|Error" | head -12)
done
git -C /repo checkout -- . ; git -C /repo status --short | head -3
(cd /verif && /venv/bin/python harness/gen_tables.py /repo > /dev/null 2>&1)   # leave the generated tables as /repo says
