#!/venv/bin/python
"""
tools/make_legacy_db.py - make the committed fixtures corpus/legacy_db/{mixed,emptied,fresh}.sql + MANIFEST.json.

Run ONCE on /repo as it is at that time (the fixtures are "database files an earlier run of the server wrote"; running it
again with a later tree would replace the old files by files of the new code, which is NOT what they are for):

    /venv/bin/python tools/make_legacy_db.py [--force]

The real KmipEngine (real cryptography backend, deterministic clock of harness/lib/impl_engine.py) is driven through the
request door of ImplEngine and through the encoder / bytes / decoder door (lib/legacy_db.register_core), restarted on the
same file in between, closed, and the file is written out as text with sqlite3.Connection.iterdump() (schema texts,
rows, the orphaned child rows of destroyed objects and the sqlite_sequence rows included).  What each file holds is
recorded in MANIFEST.json from THREE readings that have to agree (the values put in, the ORM dump, Get through the
real client); the written .sql is materialized again and re-read before the tool says it is done.
"""
import hashlib
import json
import os
import sqlite3
import subprocess
import sys

HERE = os.path.dirname(os.path.abspath(__file__))
VERIF = os.path.dirname(HERE)
sys.path.insert(0, os.path.join(VERIF, "harness"))
sys.path.insert(0, os.path.join(VERIF, "harness", "lib"))
import vcheck  # noqa: E402,F401   (puts VERIF_REPO / /repo first on sys.path)
import legacy_db  # noqa: E402

OUT = legacy_db.CORPUS
PRIME_NEAR_2_62 = 2 ** 62 + 57


def T(attrs):
    return {"tnames": 0, "attrs": attrs}


def A(name, kind, v, index=None, **kw):
    d = {"k": kind, "v": v}
    d.update(kw)
    return {"name": name, "index": index, "value": d}


def names_attrs(names):
    return [A("Name", "name", n, i, t=1) for i, n in enumerate(names)]


def group_attrs(groups):
    return [A("Object Group", "text", g, i) for i, g in enumerate(groups)]


def appinfo_attrs(infos):
    return [{"name": "Application Specific Information", "index": i, "value": {"k": "appinfo", "ns": ns, "d": d}}
            for i, (ns, d) in enumerate(infos)]


def key_attrs(alg, length, mask):
    return [A("Cryptographic Algorithm", "enum", alg), A("Cryptographic Length", "int", length),
            A("Cryptographic Usage Mask", "int", mask)]


class Maker(object):
    def __init__(self):
        self.E = legacy_db.LegacyEngine(fixture=None, scripted_crypto=False)
        self.now = 1000
        self.log = []
        self.spec = {}          # uid -> what was put in (owner, names, groups, appinfo, mask, value when supplied)
        self.dead = []

    def tick(self):
        self.now += 10
        return self.now

    def req(self, user, item, version=14):
        it = dict({"bid": None, "crypto": None}, **item)
        o = self.E.request(self.tick(), {"user": user, "groups": None},
                           {"version": version, "ts": None, "async": None, "bopt": None, "maxsize": None, "items": [it]})
        r = o["results"][0]
        if r["status"] != "ok":
            raise RuntimeError("%s by %s failed: %r" % (item["op"], user, r))
        self.log.append({"user": user, "op": item["op"], "answer": r["data"]})
        return r["data"]

    def note(self, uid, owner, made_by, names=(), groups=(), appinfo=(), mask=None, value=None):
        self.spec[str(uid)] = {"owner": owner, "made_by": made_by, "names": list(names), "groups": list(groups),
                               "appinfo": [list(x) for x in appinfo], "mask": mask,
                               "value": None if value is None else value.hex()}

    def create(self, user, alg, length, mask, names=(), groups=(), appinfo=()):
        d = self.req(user, {"op": "create", "otype": 2, "tmpl": T(key_attrs(alg, length, mask) + names_attrs(names) +
                                                                   group_attrs(groups) + appinfo_attrs(appinfo))})
        self.note(d["uid"], user, "Create", names, groups, appinfo, mask)
        return d["uid"]

    def register(self, user, otype, secret, mask, names=(), groups=(), appinfo=(), value=None):
        attrs = ([] if mask is None else [A("Cryptographic Usage Mask", "int", mask)]) + names_attrs(names) + \
            group_attrs(groups) + appinfo_attrs(appinfo)
        res = legacy_db.register_core(self.E, user, 14, otype, secret, attrs, now=self.tick())
        if res[0] != "ok":
            raise RuntimeError("Register by %s failed: %r" % (user, res))
        self.log.append({"user": user, "op": "register", "answer": {"uid": res[1]}})
        self.note(res[1], user, "Register", names, groups, appinfo, mask, value)
        return res[1]

    def destroy(self, user, uid):
        self.req(user, {"op": "destroy", "uid": uid})
        self.dead.append(str(uid))

    def restart(self):
        self.E.restart()
        self.log.append({"op": "restart"})

    # -- what the file holds ------------------------------------------------------------------------------------------
    def holdings(self):
        """[object entry] of every live object: the ORM dump, Get through the real client by the owner, and what was put
        in have to agree"""
        from props import c05
        dump = self.E.dump()
        out = []
        for o in dump["objs"]:
            uid = str(o["uid"])
            sp = self.spec[uid]
            c = self.E.client(14, o["owner"])
            got = c05.describe(c.get(uid))
            problems = []
            if got["value"] != o["value"] or got["type"] != o["otype"]:
                problems.append("Get and the ORM dump disagree: %r / %r" % (got, o))
            if sp["value"] is not None and sp["value"] != o["value"]:
                problems.append("stored value differs from the value supplied")
            for k in ("names", "groups", "appinfo"):
                if sp[k] != o[k]:
                    problems.append("%s: supplied %r, stored %r" % (k, sp[k], o[k]))
            if o["otype"] != 8 and (sp["mask"] or 0) != (o["mask"] or 0):
                problems.append("mask: supplied %r, stored %r" % (sp["mask"], o["mask"]))
            if sp["owner"] != o["owner"]:
                problems.append("owner: %r / %r" % (sp["owner"], o["owner"]))
            if problems:
                raise RuntimeError("object %s: %s" % (uid, "; ".join(problems)))
            from kmip.core import enums
            out.append({"uid": uid, "owner": o["owner"], "type": enums.ObjectType(o["otype"]).name, "otype": o["otype"],
                        "made_by": sp["made_by"],
                        "state": o["state"], "state_name": None if o["state"] is None else enums.State(o["state"]).name,
                        "get": got, "names": o["names"], "groups": o["groups"], "appinfo": o["appinfo"],
                        "mask": o["mask"], "policy": o["policy"], "sensitive": o["sensitive"],
                        "initial_date": o["date"]})
        return out

    def finish(self, name, what):
        objs = self.holdings()
        self.E.engine._data_store.dispose()
        con = sqlite3.connect(self.E.db)
        try:
            text = "\n".join(con.iterdump()) + "\n"
            seq = con.execute("SELECT seq FROM sqlite_sequence WHERE name = 'managed_objects'").fetchall()
            uv = con.execute("PRAGMA user_version").fetchall()[0][0]
        finally:
            con.close()
        self.E.close()
        live = [o["uid"] for o in objs]
        entry = {"file": name + ".sql", "what": what, "sha1": hashlib.sha1(text.encode()).hexdigest(),
                 "sequence": seq[0][0] if seq else None, "user_version": uv,
                 "ever_used": sorted(set(live) | set(self.dead), key=int), "dead": sorted(self.dead, key=int),
                 "live": live, "objects": objs, "history": self.log}
        return text, entry


def self_signed_certificate():
    try:
        import datetime
        from cryptography import x509
        from cryptography.hazmat.primitives import hashes, serialization
        from cryptography.hazmat.primitives.asymmetric import rsa
        from cryptography.x509.oid import NameOID
        k = rsa.generate_private_key(public_exponent=65537, key_size=1024)
        n = x509.Name([x509.NameAttribute(NameOID.COMMON_NAME, u"legacy.example.com")])
        c = x509.CertificateBuilder().subject_name(n).issuer_name(n).public_key(k.public_key()).serial_number(4711) \
            .not_valid_before(datetime.datetime(2015, 1, 1)).not_valid_after(datetime.datetime(2035, 1, 1)) \
            .sign(k, hashes.SHA256())
        return c.public_bytes(serialization.Encoding.DER)
    except Exception:
        return bytes.fromhex("3082010a0282010100") + bytes(range(200))


def make_mixed():
    from kmip.core import enums
    from kmip.pie import objects as po
    from kmip.pie.factory import ObjectFactory
    F = ObjectFactory()
    U = enums.CryptographicUsageMask
    M = Maker()
    # 1 Active AES-128 of alice: two names, two groups, application specific information
    m1 = U.ENCRYPT.value | U.DECRYPT.value | U.MAC_GENERATE.value | U.MAC_VERIFY.value | U.DERIVE_KEY.value | \
        U.WRAP_KEY.value | U.UNWRAP_KEY.value
    u1 = M.create("alice", 3, 128, m1, ["legacy-sym", "legacy sym, second name"], ["g1", "shared"],
                  [("ssl", "www.example.com")])
    M.req("alice", {"op": "activate", "uid": u1})
    # 2, 3 RSA pair of bob
    d = M.req("bob", {"op": "createKeyPair",
                      "common": T([A("Cryptographic Algorithm", "enum", 4), A("Cryptographic Length", "int", 1024)]),
                      "priv": T([A("Cryptographic Usage Mask", "int", U.SIGN.value)] + names_attrs(["legacy-priv"])),
                      "pub": T([A("Cryptographic Usage Mask", "int", U.VERIFY.value)] + names_attrs(["legacy-pub"]) +
                               group_attrs(["shared"]))})
    M.note(d["pub"], "bob", "CreateKeyPair", ["legacy-pub"], ["shared"], (), U.VERIFY.value)
    M.note(d["priv"], "bob", "CreateKeyPair", ["legacy-priv"], (), (), U.SIGN.value)
    # 4 split key of bob, prime field size near 2**62
    val = bytes((7 * i + 3) % 256 for i in range(32))
    sk = legacy_db.core_split_key(3, 256, val, 1, 5, 2, 3, 3, PRIME_NEAR_2_62)
    M.register("bob", 5, sk, U.ENCRYPT.value | U.DECRYPT.value, ["legacy-split"], ["g2"], (), value=val)
    # 5 certificate of alice
    cert = self_signed_certificate()
    M.register("alice", 1, F.convert(po.X509Certificate(cert)), U.VERIFY.value, ["legacy-cert"], (),
               [("ca", "root")], value=cert)
    # 6 secret data of bob
    pw = b"legacy-password\x00\xff\x7f"
    M.register("bob", 7, F.convert(po.SecretData(pw, enums.SecretDataType.PASSWORD)), U.DERIVE_KEY.value,
               ["legacy-secret", "legacy-secret-alias"], ["g2"], [("ssl", "login"), ("app2", "token")], value=pw)
    # 7 opaque of alice
    blob = bytes(range(40))
    M.register("alice", 8, F.convert(po.OpaqueObject(blob, enums.OpaqueDataType.NONE)), None, ["legacy-opaque"],
               ["g1"], (), value=blob)
    M.restart()
    # 8 AES-256 of bob: destroyed later, when it sits in the middle
    u8 = M.create("bob", 3, 256, U.ENCRYPT.value | U.DECRYPT.value, ["legacy-doomed-middle"], ["g1"])
    # 9 Deactivated AES-192 of alice
    u9 = M.create("alice", 3, 192, U.ENCRYPT.value | U.DECRYPT.value, ["legacy-deactivated"])
    M.req("alice", {"op": "activate", "uid": u9})
    M.req("alice", {"op": "revoke", "uid": u9, "code": 6})
    # 10 Compromised AES-128 of bob (registered value)
    kv = bytes.fromhex("000102030405060708090a0b0c0d0e0f")
    u10 = M.register("bob", 2, F.convert(po.SymmetricKey(enums.CryptographicAlgorithm.AES, 128, kv)),
                     U.ENCRYPT.value | U.DECRYPT.value, ["legacy-compromised"], (), (), value=kv)
    M.req("bob", {"op": "activate", "uid": u10})
    M.req("bob", {"op": "revoke", "uid": u10, "code": 2})
    # 11 wrapped AES key of alice (wrapped with key 1 by somebody else's tool: the bytes are what they are)
    wv = bytes((11 * i + 5) % 256 for i in range(24))
    w = {"wrapping_method": enums.WrappingMethod.ENCRYPT,
         "encryption_key_information": {"unique_identifier": str(u1), "cryptographic_parameters": {
             "block_cipher_mode": enums.BlockCipherMode.NIST_KEY_WRAP}},
         "encoding_option": enums.EncodingOption.NO_ENCODING}
    M.register("alice", 2, F.convert(po.SymmetricKey(enums.CryptographicAlgorithm.AES, 128, wv, key_wrapping_data=w)),
               U.ENCRYPT.value, ["legacy-wrapped"], (), (), value=wv)
    # 12 HMAC-SHA256 key of alice, Active
    hv = bytes((13 * i + 1) % 256 for i in range(32))
    u12 = M.register("alice", 2, F.convert(po.SymmetricKey(enums.CryptographicAlgorithm.HMAC_SHA256, 256, hv)),
                     U.MAC_GENERATE.value | U.MAC_VERIFY.value, ["legacy-hmac"], ["shared"], (), value=hv)
    M.req("alice", {"op": "activate", "uid": u12})
    M.restart()
    # the middle one dies
    M.destroy("bob", u8)
    # 13 the newest dies while it is the newest: the allocator stands one beyond the largest identifier in the file
    u13 = M.create("bob", 3, 128, U.ENCRYPT.value, ["legacy-doomed-newest"], ["g2"], [("ssl", "gone")])
    M.destroy("bob", u13)
    return M.finish("mixed", "objects of all seven stored types of two owners (alice, bob) with names, groups, "
                    "application specific information and masks; keys Active (1, 12), Deactivated (9), Compromised "
                    "(10), a wrapped key (11), a split key with a prime field size near 2**62 (4); identifier 8 "
                    "destroyed in the middle, identifier 13 destroyed while it was the newest (sqlite_sequence 13, "
                    "largest identifier in managed_objects 12); child rows of both still in the file")


def make_emptied():
    from kmip.core import enums
    from kmip.pie import objects as po
    from kmip.pie.factory import ObjectFactory
    M = Maker()
    a = M.create("alice", 3, 128, 12, ["emptied-1"], ["g1"])
    b = M.register("bob", 7, ObjectFactory().convert(po.SecretData(b"secret-2", enums.SecretDataType.SEED)), 0x200,
                   ["emptied-2"], (), [("ssl", "x")], value=b"secret-2")
    c = M.create("alice", 3, 256, 12, ["emptied-3"])
    M.destroy("alice", c)
    M.destroy("alice", a)
    M.destroy("bob", b)
    return M.finish("emptied", "three objects created (1, 3 by alice, 2 by bob) and ALL destroyed: managed_objects is "
                    "empty, the allocator (sqlite_sequence) stands at 3, the child rows are still in the file")


def make_fresh():
    M = Maker()
    return M.finish("fresh", "a database the engine created and nobody used")


def main():
    force = "--force" in sys.argv
    os.makedirs(OUT, exist_ok=True)
    if os.path.exists(os.path.join(OUT, "MANIFEST.json")) and not force:
        print("corpus/legacy_db/MANIFEST.json exists: the fixtures are made ONCE (use --force to replace them)")
        return 2
    repo = vcheck.REPO
    head = subprocess.run(["git", "-C", repo, "rev-parse", "HEAD"], stdout=subprocess.PIPE, text=True).stdout.strip()
    dirty = subprocess.run(["git", "-C", repo, "status", "--porcelain", "--untracked-files=no"], stdout=subprocess.PIPE,
                           text=True).stdout.strip()
    man = {"generator": "tools/make_legacy_db.py", "repo": repo, "repo_head": head, "repo_dirty": bool(dirty),
           "format": "sqlite3.Connection.iterdump() text; materialize with harness/lib/legacy_db.py",
           "fixtures": {}}
    for mk in (make_mixed, make_emptied, make_fresh):
        text, entry = mk()
        with open(os.path.join(OUT, entry["file"]), "w") as f:
            f.write(text)
        man["fixtures"][entry["file"][:-4]] = entry
        print("%-8s %6d bytes  sequence=%s live=%s dead=%s" % (entry["file"][:-4], len(text), entry["sequence"],
                                                               entry["live"], entry["dead"]))
    with open(os.path.join(OUT, "MANIFEST.json"), "w") as f:
        json.dump(man, f, indent=1, sort_keys=True)
        f.write("\n")
    # read everything back: the materialized file opened by the engine holds what the MANIFEST says
    legacy_db._MANIFEST[0] = None
    for name in legacy_db.names():
        E = legacy_db.LegacyEngine(name)
        try:
            d = E.dump()
            want = legacy_db.describe(name)
            got = [(str(o["uid"]), o["owner"], o["otype"], o["state"], o["value"]) for o in d["objs"]]
            exp = [(o["uid"], o["owner"], o["otype"], o["state"], o["get"]["value"]) for o in want["objects"]]
            if got != exp:
                raise RuntimeError("%s: read back %r, MANIFEST %r" % (name, got, exp))
        finally:
            E.close()
        print("%-8s read back: %d objects, schema_same_as_current=%s" % (name, len(got), legacy_db.schema_same_as_current(name)))
    return 0


if __name__ == "__main__":
    sys.exit(main())
