#!/bin/sh
# usage: tools/run_seeded.sh [out-file]   -- every seeded/<id>/patch.diff against the quick check of its property
# (scratch worktree + VERIF_REPO; /repo is left alone).  Prints one line per seeded change: DETECTED / MISSED.
OUT="${1:-/tmp/seeded_results.txt}"; : > "$OUT"
cd /verif || exit 2
for d in ${SEEDED:-seeded/*/}; do
  id=$(basename "$d"); prop=$(python3 -c "import json;print(json.load(open('$d/meta.json'))['property'])")
  r=$(tools/try_mutant_wt.sh "$d/patch.diff" "$prop" 2>&1)
  n=$(echo "$r" | grep -c "^VIOLATION")
  ni=$(echo "$r" | grep "^VIOLATION" | grep -vc "no-failing-input-found")
  if [ "$n" -gt 0 ]; then echo "DETECTED $id ($prop): $n violation line(s), $ni with a concrete input" >> "$OUT";
  elif echo "$r" | grep -q "tier=quick"; then echo "MISSED   $id ($prop)" >> "$OUT";
  else echo "ERROR    $id ($prop): the check did not finish (harness error / timeout)" >> "$OUT"; fi
done
cat "$OUT"
