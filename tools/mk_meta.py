#!/usr/bin/env python3
"""usage: tools/mk_meta.py <seeded-id> <Cxx> <needs_to_manifest> <detected_by> [intake-log]"""
import json, os, re, sys
sid, prop, needs, det = sys.argv[1:5]
log = open(sys.argv[5]).read() if len(sys.argv) > 5 and os.path.exists(sys.argv[5]) else ""
m = re.search(r"--- demo WITHOUT change:\s*exit=(\d+)\s*--- demo WITH change:\s*exit=(\d+)", log)
t = re.search(r"(\d+ failed, \d+ passed, \d+ skipped)", log)
meta = {"id": sid, "property": prop, "breaks": "see README.md", "needs_to_manifest": needs,
        "confirmed": {"demo_without_change": "exit %s" % (m.group(1) if m else "?"),
                      "demo_with_change": "exit %s" % (m.group(2) if m else "?"),
                      "unit_tests_with_change": (t.group(1) if t else "?") + " (the same 2 ssl.wrap_socket tests fail on the unchanged tree; they are not in the pinned baseline)",
                      "how": "tools/validate_mutant.sh in a fresh scratch worktree of /repo HEAD (round 5; written by a sub-agent that saw only the property text)"},
        "detected_by": det,
        "how_run": "tools/try_mutant_wt.sh seeded/%s/patch.diff %s (scratch worktree + VERIF_REPO, ./check %s --tier quick)" % (sid, prop, prop)}
json.dump(meta, open("/verif/seeded/%s/meta.json" % sid, "w"), indent=1)
print("ok", sid)
